#!/bin/bash
# refresh_evidence.sh [quick|thorough] [ids...]: re-runs the registered checks on the CLEAN /repo tree and validates
# the evidence they wrote. Refuses to run when /repo has uncommitted changes (evidence must never come from a
# patched tree).
cd /verif
TIER=${1:-quick}; shift
if [ -n "$(git -C /repo status --porcelain --untracked-files=no)" ]; then echo "/repo working tree is not clean"; exit 2; fi
IDS="$@"; [ -z "$IDS" ] && IDS=$(python3 -c "import json; print(' '.join(c['property_id'] for c in json.load(open('MANIFEST.json'))['checks']))")
RC=0
for c in $IDS; do
  ./check $c $TIER > /tmp/refresh-$c.log 2>&1; rc=$?
  tail -n 1 /tmp/refresh-$c.log
  [ $rc -ne 0 ] && { RC=1; grep -E "VIOLATION|INCONCLUSIVE" /tmp/refresh-$c.log | head -5; }
done
python3-vt - <<'PY'
import json, glob, jsonschema
sch = json.load(open('/root/.vp/EVIDENCE.schema.json'))
for f in sorted(glob.glob('/verif/evidence/*.json')):
    jsonschema.validate(json.load(open(f)), sch)
jsonschema.validate(json.load(open('/verif/MANIFEST.json')), json.load(open('/root/.vp/MANIFEST.schema.json')))
print("evidence + manifest validate")
PY
exit $RC
