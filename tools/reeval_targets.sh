#!/bin/bash
# reeval_targets.sh <names...>: re-runs, for each seeded change, its target check (and the checks that caught it before,
# C12 only when it is the target) against the CURRENT /verif; merges into seeded/<name>/results.json
cd /verif
for m in "$@"; do
  IDS=$(python3 - "$m" <<'PY'
import json, sys, os
m = sys.argv[1]
meta = json.load(open("/verif/seeded/%s/meta.json" % m))
t = meta["breaks_property"]
ids = {t}
rj = "/verif/seeded/%s/results.json" % m
if os.path.exists(rj):
    ids |= set(json.load(open(rj)).get("caught_by", []))
if t != "C12":
    ids.discard("C12")
print(" ".join(sorted(ids)))
PY
)
  MX_SKIP="" VERIF_JOBS=${VERIF_JOBS:-5} ./tools/run_mutant.py $m seeded/$m/patch.diff $IDS > /tmp/rx-$m.log 2>&1
  echo "$m [$IDS]: $(tail -n 1 /tmp/rx-$m.log)"
done
