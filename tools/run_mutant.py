#!/usr/bin/env python3
"""run_mutant.py <name> <patch.diff> [check ids...]
Evaluates the registered checks (quick tier) against a seeded change WITHOUT touching /repo:
builds a scratch mirror /tmp/mx/<name>/{repo (worktree of /repo HEAD + patch), verif (copy of
/verif)} so that the harness' relative path dependency finds the mutated tree, runs the checks
there, prints which fire, and removes the scratch copy and its build output afterwards."""
import json, os, shutil, subprocess, sys, time

name, patch = sys.argv[1], os.path.abspath(sys.argv[2])
want = sys.argv[3:]
root = "/tmp/mx/%s" % name
shutil.rmtree(root, ignore_errors=True)
os.makedirs(root)
try:
    subprocess.run(["git", "-C", "/repo", "worktree", "add", "-q", "--detach", root + "/repo", "HEAD"], check=True)
    p = subprocess.run(["git", "-C", root + "/repo", "apply", patch], capture_output=True, text=True)
    if p.returncode:
        print("PATCH DOES NOT APPLY:", p.stderr)
        sys.exit(2)
    subprocess.run(["rsync", "-a", "--exclude", ".git", "--exclude", "target*", "--exclude", "run", "--exclude", "replays",
                    "--exclude", "evidence", "--exclude", "seeded", "/verif/", root + "/verif/"], check=True)
    # the harness depends on /repo by absolute path; point the scratch copy at the mutated tree instead
    ct = root + "/verif/harness/Cargo.toml"
    txt = open(ct).read().replace('path = "/repo"', 'path = "%s/repo"' % root)
    open(ct, "w").write(txt)
    man = json.load(open("/verif/MANIFEST.json"))
    ids = [c["property_id"] for c in man["checks"]]
    if want:
        ids = [i for i in ids if i in want]
    skip = os.environ.get("MX_SKIP", "").split()
    ids = [i for i in ids if i not in skip]
    env = dict(os.environ, VERIF_JOBS=os.environ.get("VERIF_JOBS", "16"))
    res = {}
    for pid in ids:
        t = time.time()
        p = subprocess.run(["./check", pid, "quick"], cwd=root + "/verif", capture_output=True, text=True, env=env)
        lines = p.stdout.strip().split("\n")
        sigs = set()
        rp = os.path.join(root, "verif", "replays")
        if os.path.isdir(rp):
            for f in os.listdir(rp):
                if f.startswith(pid + "-"):
                    sigs.add(json.load(open(os.path.join(rp, f)))["violation"].get("sig"))
        res[pid] = {"exit": p.returncode, "wall_s": round(time.time() - t, 1), "summary": lines[-1] if p.returncode != 2 else "\n".join(lines[-3:]),
                    "signatures": sorted(x for x in sigs if x)[:8]}
        print("%s exit=%d %.0fs %s" % (pid, p.returncode, time.time() - t, "; ".join(sorted(x for x in sigs if x))[:300]), flush=True)
    os.makedirs("/verif/seeded/%s" % name, exist_ok=True)
    prev = {}
    rj = "/verif/seeded/%s/results.json" % name
    if os.path.exists(rj) and os.environ.get("MX_MERGE", "1") == "1":
        try:
            prev = json.load(open(rj)).get("results", {})
        except Exception:
            prev = {}
    head = subprocess.run(["git", "-C", "/verif", "rev-parse", "--short", "HEAD"], capture_output=True, text=True).stdout.strip()
    for k in res:
        res[k]["verif_commit"] = head
    merged = dict(prev)
    merged.update(res)
    res = merged
    out = {"mutant": name, "patch": patch, "results": res, "caught_by": sorted(k for k, v in res.items() if v["exit"] == 1),
           "inconclusive": sorted(k for k, v in res.items() if v["exit"] == 2)}
    json.dump(out, open("/verif/seeded/%s/results.json" % name, "w"), indent=1)
    print("CAUGHT BY:", out["caught_by"], "INCONCLUSIVE:", out["inconclusive"])
finally:
    subprocess.run(["git", "-C", "/repo", "worktree", "remove", "--force", root + "/repo"], capture_output=True)
    shutil.rmtree(root, ignore_errors=True)
