#!/bin/bash
cd /verif
for m in "$@"; do
  SK="C12"; case "$m" in C12*|own-ke3*) SK="";; esac
  MX_SKIP="$SK" VERIF_JOBS=6 ./tools/run_mutant.py $m seeded/$m/patch.diff > /tmp/mx-$m.log 2>&1; echo "$m: $(tail -n 1 /tmp/mx-$m.log)"
done
