#!/usr/bin/env python3
"""One-time transcription of published RFC test vectors into plain JSON data
(monitors/refmodel/vectors/). The on-disk copies are only used to transcribe from; the
resulting JSON is committed and is what the self-test reads."""
import glob, json, os, re, sys
OUT = os.path.join(os.path.dirname(os.path.dirname(os.path.abspath(__file__))), "monitors", "refmodel", "vectors")

def rfc9807():
    txt = open("/repo/src/tests/opaque_vectors.rs").read()
    txt = txt[txt.index('r#"') + 3: txt.rindex('"#')]
    vecs = []
    for block in re.split(r"\n### ", txt)[1:]:
        title = block.split("\n", 1)[0].strip()
        cur = {"title": title}
        key = None
        for line in block.split("\n")[1:]:
            if line.startswith("#") or line.startswith("~~~") or not line.strip():
                key = None if line.startswith("~~~") or line.startswith("#") else key
                continue
            m = re.match(r"^([A-Za-z_0-9]+): ?(.*)$", line)
            if m:
                key = m.group(1)
                cur[key] = m.group(2).strip()
            elif key:
                cur[key] += line.strip()
        vecs.append(cur)
    json.dump(vecs, open(os.path.join(OUT, "rfc9807.json"), "w"), indent=1)
    print("rfc9807:", len(vecs), [v["title"] for v in vecs])

def rfc9497():
    p = glob.glob(os.path.expanduser("~/.cargo/registry/src/*/voprf-0.5.0/src/tests/cfrg_vectors.rs"))[0]
    txt = open(p).read()
    txt = txt[txt.index('r#"') + 3: txt.rindex('"#')]
    suites = []
    suite = mode = None
    cur = None
    key = None
    for line in txt.split("\n"):
        m = re.match(r"^A\.\d+\.\s+(\S+)\s*$", line)
        if m:
            suite = m.group(1); continue
        m = re.match(r"^A\.\d+\.\d+\.\s+(\w+) Mode", line)
        if m:
            mode = m.group(1)
            cur = {"suite": suite, "mode": mode, "vectors": []}
            suites.append(cur); tgt = cur; key = None
            continue
        m = re.match(r"^A\.\d+\.\d+\.\d+\.\s+Test Vector (\d+), Batch Size (\d+)", line)
        if m:
            tgt = {"batch": int(m.group(2))}
            cur["vectors"].append(tgt); key = None
            continue
        m = re.match(r"^\s+(\w+) = (.*)$", line)
        if m and cur is not None:
            key = m.group(1); tgt[key] = m.group(2).strip(); continue
        if line.strip() and key and cur is not None and not line.startswith("A."):
            tgt[key] += line.strip()
        else:
            key = None
    suites = [s for s in suites if s["mode"] == "OPRF"]
    json.dump(suites, open(os.path.join(OUT, "rfc9497.json"), "w"), indent=1)
    print("rfc9497:", [(s["suite"], len(s["vectors"])) for s in suites])

rfc9807(); rfc9497()
