#!/usr/bin/env python3
"""Exercises the KNOWN-FINDING mechanism on a scratch mirror whose repo is the tree BEFORE the Curve25519 small-order
repair (the defect is present again): (1) no entry listed -> VIOLATION, exit 1; (2) every observed signature listed ->
only KNOWN-FINDING lines, exit 0; (3) all but one listed -> that one is a VIOLATION, exit 1. Removes the mirror."""
import json, os, shutil, subprocess, sys
root = "/tmp/mx/kf"
shutil.rmtree(root, ignore_errors=True)
os.makedirs(root)
try:
    subprocess.run(["git", "-C", "/repo", "worktree", "add", "-q", "--detach", root + "/repo", "25c879a~1"], check=True)
    subprocess.run(["rsync", "-a", "--exclude", ".git", "--exclude", "target*", "--exclude", "run", "--exclude", "replays", "--exclude", "evidence",
                    "--exclude", "seeded", "/verif/", root + "/verif/"], check=True)
    ct = root + "/verif/harness/Cargo.toml"
    txt = open(ct).read().replace('path = "/repo"', 'path = "%s/repo"' % root)
    open(ct, "w").write(txt)
    kf = root + "/verif/known_findings.json"

    def run():
        p = subprocess.run(["./check", "C11", "quick"], cwd=root + "/verif", capture_output=True, text=True, env=dict(os.environ, VERIF_JOBS="8"))
        sigs = set()
        rp = root + "/verif/replays"
        if os.path.isdir(rp):
            for f in os.listdir(rp):
                sigs.add(json.load(open(os.path.join(rp, f)))["violation"]["sig"])
            shutil.rmtree(rp)
        return p.returncode, p.stdout, sigs

    json.dump({"findings": [], "fixed": []}, open(kf, "w"))
    rc1, out1, sigs = run()
    print("(1) nothing listed: exit", rc1, "violation lines", out1.count("VIOLATION property=C11"), "distinct signatures", len(sigs))
    # collect ALL signatures (the replay files are capped): run the job monitor directly is overkill; list what was reported,
    # iterate until exit 0
    listed = set()
    for _ in range(12):
        listed |= sigs
        json.dump({"findings": [{"property": "C11", "sig": s, "what": s.replace("C11 ", "")} for s in sorted(listed)], "fixed": []}, open(kf, "w"))
        rc2, out2, sigs = run()
        if rc2 == 0:
            break
    print("(2) all %d signatures listed: exit %d, KNOWN-FINDING lines %d, VIOLATION lines %d" % (len(listed), rc2, out2.count("KNOWN-FINDING: property=C11"), out2.count("VIOLATION property=C11")))
    drop = sorted(listed)[0]
    json.dump({"findings": [{"property": "C11", "sig": s, "what": s.replace("C11 ", "")} for s in sorted(listed) if s != drop], "fixed": []}, open(kf, "w"))
    rc3, out3, sigs3 = run()
    print("(3) all but %r listed: exit %d, reported signatures %s" % (drop, rc3, sorted(sigs3)))
    ok = rc1 == 1 and rc2 == 0 and "KNOWN-FINDING" in out2 and rc3 == 1 and sigs3 == {drop}
    print("MECHANISM OK" if ok else "MECHANISM BROKEN")
    sys.exit(0 if ok else 1)
finally:
    subprocess.run(["git", "-C", "/repo", "worktree", "remove", "--force", root + "/repo"], capture_output=True)
    shutil.rmtree(root, ignore_errors=True)
