#!/usr/bin/env python3
"""prints the validation matrix (markdown) from /verif/seeded/*/{meta,results}.json"""
import glob, json, os
rows = []
for d in sorted(glob.glob("/verif/seeded/*")):
    try:
        meta = json.load(open(d + "/meta.json"))
    except OSError:
        continue
    res = None
    if os.path.exists(d + "/results.json"):
        res = json.load(open(d + "/results.json"))
    need = meta["needs_to_manifest"]
    if isinstance(need, list):
        txt = " ".join(x.strip("# ").strip() for x in need if x.strip())[:160]
    else:
        txt = need[:160]
    target = meta["breaks_property"]
    if res:
        caught = res["caught_by"]
        mark = "yes" if target in caught else "**NO**"
        others = [c for c in caught if c != target]
        inc = res.get("inconclusive", [])
        also = " ".join(others) or "-"
        if inc:
            also += " (inconclusive: " + " ".join(inc) + ")"
        rows.append("| %s | %s | %s | %s | %s |" % (meta["id"], target, mark, also, txt.replace("|", "/")))
    else:
        rows.append("| %s | %s | (not evaluated yet) | | %s |" % (meta["id"], target, txt.replace("|", "/")))
print("| seeded change | target | caught by target check (quick) | also caught by | what it is / needs |")
print("|---|---|---|---|---|")
print("\n".join(rows))
