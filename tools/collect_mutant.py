#!/usr/bin/env python3
"""collect_mutant.py <Cxx> <k>: copy a CONFIRMED sub-agent change into /verif/seeded/<Cxx>-<k>/"""
import json, os, shutil, sys
pid, k = sys.argv[1], sys.argv[2]
base = os.environ.get("MUTBASE", "/tmp/mut")
tagx = os.environ.get("MUTTAG", "")          # e.g. "r2-" for the second round
src = "%s/%s/OUT" % (base, pid)
conf = open("%s/confirm%s.txt" % (src, k)).read()
assert "RESULT: CONFIRMED" in conf, conf
dst = "/verif/seeded/%s-%s%s" % (pid, tagx, k)
os.makedirs(dst, exist_ok=True)
shutil.copy("%s/patch%s.diff" % (src, k), dst + "/patch.diff")
shutil.copy("%s/demo%s.rs" % (src, k), dst + "/demo.rs")
notes = open("%s/notes%s.md" % (src, k)).read()
open(dst + "/notes.md", "w").write(notes)
meta = {"id": "%s-%s%s" % (pid, tagx, k), "breaks_property": pid, "origin": "independent sub-agent given only the property text and a scratch worktree",
        "needs_to_manifest": notes.strip().split("\n")[0:40],
        "confirmed": {"how": "tools/confirm_mutant.sh in a scratch worktree of /repo HEAD: patch applies; cargo build --features curve25519,argon2; "
                             "cargo test --workspace --no-fail-fast --offline = 91 passed with the patch; demo fails with the patch and passes without",
                      "log": conf.strip().split("\n")}}
json.dump(meta, open(dst + "/meta.json", "w"), indent=1)
print("collected", dst)
