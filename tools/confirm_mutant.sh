#!/bin/bash
# confirm_mutant.sh <worktree> <k> : confirms a sub-agent's seeded change in its scratch worktree:
#  patch applies; crate builds with all features; existing suite passes (91); demo fails with the
#  patch and passes without. Writes <worktree>/OUT/confirm<k>.txt ; exit 0 iff all confirmed.
WT=$1; K=$2
cd "$WT" || exit 2
export CARGO_NET_OFFLINE=true
OUT=OUT/confirm$K.txt
: > $OUT
git checkout -q -- . ; rm -rf tests
FEAT="curve25519,argon2,std"
REL=""; grep -q -- "--release" OUT/demo$K.rs && REL="--release"
echo "features for demo: $FEAT" >> $OUT
git apply --check OUT/patch$K.diff 2>>$OUT || { echo "RESULT: patch does not apply" >> $OUT; exit 1; }
git diff --quiet || { echo "RESULT: tree dirty" >> $OUT; exit 1; }
git apply OUT/patch$K.diff
if git diff --name-only | grep -E 'tests\.rs|src/tests/' ; then echo "RESULT: touches tests" >> $OUT; git checkout -q -- .; exit 1; fi
cargo build --offline --features curve25519,argon2 >/dev/null 2>>$OUT.build || { echo "RESULT: build failed" >> $OUT; git checkout -q -- .; exit 1; }
T=$(cargo test --workspace --no-fail-fast --offline 2>&1 | grep -E "^test result" | head -1)
echo "suite with patch: $T" >> $OUT
echo "$T" | grep -q "91 passed; 0 failed" || { echo "RESULT: existing suite does not pass with patch" >> $OUT; git checkout -q -- .; exit 1; }
mkdir -p tests; cp OUT/demo$K.rs tests/demo$K.rs
D1=$(cargo test --offline $REL --features "$FEAT" --test demo$K 2>&1 | grep -E "^test result|^error(\[|:)" | head -3)
echo "demo with patch: $D1" >> $OUT
git checkout -q -- .
D2=$(cargo test --offline $REL --features "$FEAT" --test demo$K 2>&1 | grep -E "^test result|^error(\[|:)" | head -3)
echo "demo without patch: $D2" >> $OUT
rm -rf tests
if echo "$D1" | grep -q "FAILED" && echo "$D2" | grep -q "test result: ok" ; then echo "RESULT: CONFIRMED" >> $OUT; exit 0; fi
echo "RESULT: demo does not discriminate" >> $OUT; exit 1
