#!/bin/bash
# confirm every delivered-but-unconfirmed sub-agent change; up to 4 worktrees in parallel
for WT in "$@"; do
  ( for K in 1 2; do
      [ -f $WT/OUT/patch$K.diff ] && [ ! -f $WT/OUT/confirm$K.txt ] && /verif/tools/confirm_mutant.sh $WT $K >/dev/null 2>&1
    done ) &
done
wait
for WT in "$@"; do for K in 1 2; do echo "$WT $K: $(tail -1 $WT/OUT/confirm$K.txt 2>/dev/null)"; done; done
