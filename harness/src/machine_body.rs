// Included once per suite module (see suites.rs). The enclosing module defines `Cs` (the
// CipherSuite), `NAME`, and imports everything via `use super::*`.
//
// This is an *interpreter*: it executes commands against the real opaque-ke API (production
// build) and reports what happened. It decides nothing.

type Kg = <Cs as CipherSuite>::KeGroup;
type OCs = <Cs as CipherSuite>::OprfCs;
type OG = <OCs as voprf::CipherSuite>::Group;
type KsfT = <Cs as CipherSuite>::Ksf;

#[allow(dead_code)]
pub enum Obj {
    Setup(ServerSetup<Cs>),
    SetupX(ServerSetup<Cs, ExtKey<Kg>>),
    SetupHs(ServerSetup<Cs, HndKey<Kg, HndShort>>),
    SetupHl(ServerSetup<Cs, HndKey<Kg, HndLong>>),
    CReg(ClientRegistration<Cs>),
    CLogin(ClientLogin<Cs>),
    SLogin(ServerLogin<Cs>),
    File(ServerRegistration<Cs>),
    RReq(RegistrationRequest<Cs>),
    RResp(RegistrationResponse<Cs>),
    RUpl(RegistrationUpload<Cs>),
    CReq(CredentialRequest<Cs>),
    CResp(CredentialResponse<Cs>),
    CFin(CredentialFinalization<Cs>),
    Sk(PrivateKey<Kg>),
    Pk(PublicKey<Kg>),
}

macro_rules! each_obj {
    ($o:expr, $x:ident => $body:expr) => {
        match $o {
            Obj::Setup($x) => $body,
            Obj::SetupX($x) => $body,
            Obj::SetupHs($x) => $body,
            Obj::SetupHl($x) => $body,
            Obj::CReg($x) => $body,
            Obj::CLogin($x) => $body,
            Obj::SLogin($x) => $body,
            Obj::File($x) => $body,
            Obj::RReq($x) => $body,
            Obj::RResp($x) => $body,
            Obj::RUpl($x) => $body,
            Obj::CReq($x) => $body,
            Obj::CResp($x) => $body,
            Obj::CFin($x) => $body,
            Obj::Sk($x) => $body,
            Obj::Pk($x) => $body,
        }
    };
}

impl Obj {
    fn kind(&self) -> &'static str {
        match self {
            Obj::Setup(_) => "setup",
            Obj::SetupX(_) => "setupx",
            Obj::SetupHs(_) => "setuphs",
            Obj::SetupHl(_) => "setuphl",
            Obj::CReg(_) => "creg",
            Obj::CLogin(_) => "clogin",
            Obj::SLogin(_) => "slogin",
            Obj::File(_) => "file",
            Obj::RReq(_) => "rreq",
            Obj::RResp(_) => "rresp",
            Obj::RUpl(_) => "rupl",
            Obj::CReq(_) => "creq",
            Obj::CResp(_) => "cresp",
            Obj::CFin(_) => "cfin",
            Obj::Sk(_) => "sk",
            Obj::Pk(_) => "pk",
        }
    }
    fn native(&self) -> Vec<u8> {
        each_obj!(self, x => x.serialize().to_vec())
    }
    fn bincode(&self) -> Result<Vec<u8>, String> {
        each_obj!(self, x => bincode::serialize(x).map_err(|e| format!("{e}")))
    }
    fn json(&self) -> Result<String, String> {
        each_obj!(self, x => serde_json::to_string(x).map_err(|e| format!("{e}")))
    }
    fn dup(&self) -> Obj {
        match self {
            Obj::Setup(x) => Obj::Setup(x.clone()),
            Obj::SetupX(x) => Obj::SetupX(x.clone()),
            Obj::SetupHs(x) => Obj::SetupHs(x.clone()),
            Obj::SetupHl(x) => Obj::SetupHl(x.clone()),
            Obj::CReg(x) => Obj::CReg(x.clone()),
            Obj::CLogin(x) => Obj::CLogin(x.clone()),
            Obj::SLogin(x) => Obj::SLogin(x.clone()),
            Obj::File(x) => Obj::File(x.clone()),
            Obj::RReq(x) => Obj::RReq(x.clone()),
            Obj::RResp(x) => Obj::RResp(x.clone()),
            Obj::RUpl(x) => Obj::RUpl(x.clone()),
            Obj::CReq(x) => Obj::CReq(x.clone()),
            Obj::CResp(x) => Obj::CResp(x.clone()),
            Obj::CFin(x) => Obj::CFin(x.clone()),
            Obj::Sk(x) => Obj::Sk(x.clone()),
            Obj::Pk(x) => Obj::Pk(x.clone()),
        }
    }
}

/// Outcome of a library call: Ok(payload) or Err(canonical error path).
type Api<T> = Result<T, String>;

fn api<T, E: CustomTag>(r: Result<T, ProtocolError<E>>) -> Api<T> {
    r.map_err(|e| perr(&e))
}

fn native_de(kind: &str, d: &[u8]) -> Result<Api<Obj>, String> {
    Ok(match kind {
        "setup" => api(ServerSetup::<Cs>::deserialize(d)).map(Obj::Setup),
        "setupx" => api(ServerSetup::<Cs, ExtKey<Kg>>::deserialize(d)).map(Obj::SetupX),
        "setuphs" => api(ServerSetup::<Cs, HndKey<Kg, HndShort>>::deserialize(d)).map(Obj::SetupHs),
        "setuphl" => api(ServerSetup::<Cs, HndKey<Kg, HndLong>>::deserialize(d)).map(Obj::SetupHl),
        "creg" => api(ClientRegistration::<Cs>::deserialize(d)).map(Obj::CReg),
        "clogin" => api(ClientLogin::<Cs>::deserialize(d)).map(Obj::CLogin),
        "slogin" => api(ServerLogin::<Cs>::deserialize(d)).map(Obj::SLogin),
        "file" => api(ServerRegistration::<Cs>::deserialize(d)).map(Obj::File),
        "rreq" => api(RegistrationRequest::<Cs>::deserialize(d)).map(Obj::RReq),
        "rresp" => api(RegistrationResponse::<Cs>::deserialize(d)).map(Obj::RResp),
        "rupl" => api(RegistrationUpload::<Cs>::deserialize(d)).map(Obj::RUpl),
        "creq" => api(CredentialRequest::<Cs>::deserialize(d)).map(Obj::CReq),
        "cresp" => api(CredentialResponse::<Cs>::deserialize(d)).map(Obj::CResp),
        "cfin" => api(CredentialFinalization::<Cs>::deserialize(d)).map(Obj::CFin),
        "sk" => <PrivateKey<Kg> as SecretKey<Kg>>::deserialize(d)
            .map(Obj::Sk)
            .map_err(|e| ierr(&e)),
        "pk" => PublicKey::<Kg>::deserialize(d)
            .map(Obj::Pk)
            .map_err(|e| ierr(&e)),
        _ => return Err(format!("unknown kind {kind}")),
    })
}

macro_rules! serde_de {
    ($kind:expr, $f:expr) => {
        match $kind {
            "setup" => $f.map(Obj::Setup),
            "setupx" => $f.map(Obj::SetupX),
            "setuphs" => $f.map(Obj::SetupHs),
            "setuphl" => $f.map(Obj::SetupHl),
            "creg" => $f.map(Obj::CReg),
            "clogin" => $f.map(Obj::CLogin),
            "slogin" => $f.map(Obj::SLogin),
            "file" => $f.map(Obj::File),
            "rreq" => $f.map(Obj::RReq),
            "rresp" => $f.map(Obj::RResp),
            "rupl" => $f.map(Obj::RUpl),
            "creq" => $f.map(Obj::CReq),
            "cresp" => $f.map(Obj::CResp),
            "cfin" => $f.map(Obj::CFin),
            "sk" => $f.map(Obj::Sk),
            "pk" => $f.map(Obj::Pk),
            k => return Err(format!("unknown kind {k}")),
        }
    };
}

fn bincode_de(kind: &str, d: &[u8]) -> Result<Api<Obj>, String> {
    Ok(serde_de!(kind, bincode::deserialize(d).map_err(|e| format!("serde:{e}"))))
}

fn json_de(kind: &str, d: &str) -> Result<Api<Obj>, String> {
    Ok(serde_de!(kind, serde_json::from_str(d).map_err(|e| format!("serde:{e}"))))
}

pub struct M {
    objs: HashMap<String, Obj>,
    rngs: HashMap<String, StreamRng>,
    ksfs: HashMap<String, KsfT>,
}

fn hexs(b: &[u8]) -> Value {
    Value::String(hex::encode(b))
}

fn okv(fields: Value) -> Value {
    let mut v = fields;
    v.as_object_mut().unwrap().insert("ok".into(), json!(true));
    v
}

fn errv(code: String) -> Value {
    json!({"ok": false, "err": code})
}

impl M {
    pub fn new() -> Self {
        M {
            objs: HashMap::new(),
            rngs: HashMap::new(),
            ksfs: HashMap::new(),
        }
    }

    fn obj(&self, c: &Value, k: &str) -> Result<&Obj, String> {
        let name = gs(c, k)?;
        self.objs
            .get(name)
            .ok_or_else(|| format!("no object named {name}"))
    }

    fn put(&mut self, c: &Value, k: &str, o: Obj) {
        if let Some(name) = c.get(k).and_then(|v| v.as_str()) {
            self.objs.insert(name.to_string(), o);
        }
    }

    fn with_rng<T>(
        &mut self,
        c: &Value,
        reply_draws: &mut Value,
        f: impl FnOnce(&mut Self, &mut StreamRng) -> Result<T, String>,
    ) -> Result<T, String> {
        let name = gs(c, "rng")?.to_string();
        let mut rng = self
            .rngs
            .remove(&name)
            .ok_or_else(|| format!("no rng named {name}"))?;
        let pos0 = rng.pos;
        rng.draws.clear();
        // a panic inside the library call must not lose the generator (later commands would fail for a harness reason)
        let r = catch_unwind(AssertUnwindSafe(|| f(self, &mut rng)));
        *reply_draws = json!({"rng": name, "pos": pos0, "lens": rng.take_draws()});
        self.rngs.insert(name, rng);
        match r {
            Ok(v) => v,
            Err(p) => std::panic::resume_unwind(p),
        }
    }

    fn ksf_ref(&self, c: &Value) -> Result<Option<&KsfT>, String> {
        match c.get("ksf") {
            None | Some(Value::Null) => Ok(None),
            Some(Value::String(n)) => self
                .ksfs
                .get(n)
                .map(Some)
                .ok_or_else(|| format!("no ksf named {n}")),
            _ => Err("ksf must be a name".into()),
        }
    }

    /// Executes one command. Err(String) = harness-level problem (bad command), never an API
    /// outcome.
    pub fn exec(&mut self, c: &Value) -> Result<Value, String> {
        let op = gs(c, "op")?;
        let mut draws = Value::Null;
        let mut reply = match op {
            "info" => {
                let noe = <OG as voprf::Group>::ElemLen::USIZE;
                let ns = <OG as voprf::Group>::ScalarLen::USIZE;
                let npk = <Kg as KeGroup>::PkLen::USIZE;
                let nsk = <Kg as KeGroup>::SkLen::USIZE;
                let nh = <<OCs as voprf::CipherSuite>::Hash as digest::OutputSizeUser>::OutputSize::USIZE;
                okv(json!({"suite": NAME, "oprf_id": <OCs as voprf::CipherSuite>::ID, "noe": noe, "ns": ns,
                     "npk": npk, "nsk": nsk, "nh": nh, "ksf": <KsfT as KsfSpec>::KIND}))
            }
            "rng" => {
                let seed = ghex(c, "seed")?;
                let tape = gohex(c, "tape")?.unwrap_or_default();
                self.rngs
                    .insert(gs(c, "id")?.to_string(), StreamRng::new(&seed, &tape));
                okv(json!({}))
            }
            "rng_pos" => {
                let r = self.rngs.get(gs(c, "id")?).ok_or("no such rng")?;
                okv(json!({"pos": r.pos, "total_draws": r.total_draws}))
            }
            "ksf_new" => {
                let k = <KsfT as KsfSpec>::make(&c["param"])?;
                let d = k.describe();
                self.ksfs.insert(gs(c, "id")?.to_string(), k);
                okv(json!({"desc": d}))
            }
            "ksf_ref" => {
                let input = ghex(c, "input")?;
                let len = c["len"].as_u64().unwrap_or(input.len() as u64) as usize;
                let k = match c.get("ksf").and_then(|v| v.as_str()) {
                    Some(n) => self.ksfs.get(n).ok_or("no such ksf")?,
                    None => return Err("ksf_ref needs a ksf name".into()),
                };
                match k.reference(&input, len) {
                    None => json!({"ok": false, "err": "no-reference"}),
                    Some(Ok(v)) => okv(json!({"out": hexs(&v)})),
                    Some(Err(e)) => json!({"ok": false, "err": e}),
                }
            }
            "ksf_fail" => {
                let at = c["at"].as_u64();
                KSF_FAIL.with(|f| *f.borrow_mut() = at);
                okv(json!({}))
            }
            "ext_fail" => {
                let at = c["at"].as_u64();
                let code = c["code"].as_u64().unwrap_or(0) as u32;
                EXT_FAIL.with(|f| *f.borrow_mut() = at.map(|a| (a, code)));
                okv(json!({}))
            }
            "ext_opaque" => {
                let on = c["on"].as_bool().unwrap_or(false);
                EXT_OPAQUE.with(|b| *b.borrow_mut() = on);
                okv(json!({}))
            }
            "rng_fail" => {
                let at = c["at"].as_u64();
                let r = self.rngs.get_mut(gs(c, "id")?).ok_or("no such rng")?;
                r.fail_at = at;
                okv(json!({}))
            }
            "dh_log" => {
                let on = c["on"].as_bool().unwrap_or(true);
                DH_LOG_ON.with(|b| *b.borrow_mut() = on);
                okv(json!({}))
            }
            "drop" => {
                if let Some(arr) = c["names"].as_array() {
                    for n in arr {
                        if let Some(n) = n.as_str() {
                            self.objs.remove(n);
                        }
                    }
                }
                okv(json!({}))
            }
            "clear" => {
                self.objs.clear();
                okv(json!({}))
            }
            "setup_new" => {
                let s = self.with_rng(c, &mut draws, |_, rng| Ok(ServerSetup::<Cs>::new(rng)))?;
                let r = okv(json!({"ser": hexs(&s.serialize()), "pk": hexs(&s.keypair().public().serialize())}));
                self.put(c, "out", Obj::Setup(s));
                r
            }
            "setup_new_with_key" => {
                let sk = ghex(c, "sk")?;
                let ext = c["ext"].as_bool().unwrap_or(false);
                let hnd = c["hnd"].as_str().unwrap_or("");
                if hnd == "short" {
                    match api(KeyPair::<Kg, HndKey<Kg, HndShort>>::from_private_key_slice(&hnd_handle_for(&sk, HndShort::USIZE))) {
                        Err(e) => errv(e),
                        Ok(kp) => {
                            let s = self.with_rng(c, &mut draws, |_, rng| {
                                Ok(ServerSetup::<Cs, HndKey<Kg, HndShort>>::new_with_key(rng, kp))
                            })?;
                            let r = okv(json!({"ser": hexs(&s.serialize()), "pk": hexs(&s.keypair().public().serialize())}));
                            self.put(c, "out", Obj::SetupHs(s));
                            r
                        }
                    }
                } else if hnd == "long" {
                    match api(KeyPair::<Kg, HndKey<Kg, HndLong>>::from_private_key_slice(&hnd_handle_for(&sk, HndLong::USIZE))) {
                        Err(e) => errv(e),
                        Ok(kp) => {
                            let s = self.with_rng(c, &mut draws, |_, rng| {
                                Ok(ServerSetup::<Cs, HndKey<Kg, HndLong>>::new_with_key(rng, kp))
                            })?;
                            let r = okv(json!({"ser": hexs(&s.serialize()), "pk": hexs(&s.keypair().public().serialize())}));
                            self.put(c, "out", Obj::SetupHl(s));
                            r
                        }
                    }
                } else if ext {
                    match api(KeyPair::<Kg, ExtKey<Kg>>::from_private_key_slice(&sk)) {
                        Err(e) => errv(e),
                        Ok(kp) => {
                            let s = self.with_rng(c, &mut draws, |_, rng| {
                                Ok(ServerSetup::<Cs, ExtKey<Kg>>::new_with_key(rng, kp))
                            })?;
                            let r = okv(json!({"ser": hexs(&s.serialize()), "pk": hexs(&s.keypair().public().serialize())}));
                            self.put(c, "out", Obj::SetupX(s));
                            r
                        }
                    }
                } else {
                    match api(KeyPair::<Kg>::from_private_key_slice(&sk)) {
                        Err(e) => errv(e),
                        Ok(kp) => {
                            let s = self.with_rng(c, &mut draws, |_, rng| {
                                Ok(ServerSetup::<Cs>::new_with_key(rng, kp))
                            })?;
                            let r = okv(json!({"ser": hexs(&s.serialize()), "pk": hexs(&s.keypair().public().serialize())}));
                            self.put(c, "out", Obj::Setup(s));
                            r
                        }
                    }
                }
            }
            "setup_pk" => match self.obj(c, "h")? {
                Obj::Setup(s) => okv(json!({"pk": hexs(&s.keypair().public().serialize())})),
                Obj::SetupX(s) => okv(json!({"pk": hexs(&s.keypair().public().serialize())})),
                Obj::SetupHs(s) => okv(json!({"pk": hexs(&s.keypair().public().serialize())})),
                Obj::SetupHl(s) => okv(json!({"pk": hexs(&s.keypair().public().serialize())})),
                _ => return Err("not a setup".into()),
            },
            "de" => {
                let kind = gs(c, "kind")?;
                let codec = c["codec"].as_str().unwrap_or("native");
                let r = match codec {
                    "native" => native_de(kind, &ghex(c, "data")?)?,
                    "bincode" => bincode_de(kind, &ghex(c, "data")?)?,
                    "json" => json_de(kind, gs(c, "data")?)?,
                    _ => return Err("unknown codec".into()),
                };
                match r {
                    Err(e) => errv(e),
                    Ok(o) => {
                        let rep = okv(json!({"re": hexs(&o.native())}));
                        self.put(c, "out", o);
                        rep
                    }
                }
            }
            "ser" => {
                let o = self.obj(c, "h")?;
                match c["codec"].as_str().unwrap_or("native") {
                    "native" => okv(json!({"data": hexs(&o.native()), "kind": o.kind()})),
                    "bincode" => match o.bincode() {
                        Ok(b) => okv(json!({"data": hexs(&b)})),
                        Err(e) => errv(format!("serde:{e}")),
                    },
                    "json" => match o.json() {
                        Ok(s) => okv(json!({"data": s})),
                        Err(e) => errv(format!("serde:{e}")),
                    },
                    _ => return Err("unknown codec".into()),
                }
            }
            "dup" => {
                let o = self.obj(c, "h")?.dup();
                self.put(c, "out", o);
                okv(json!({}))
            }
            "eq" => {
                let a = self.obj(c, "a")?;
                let b = self.obj(c, "b")?;
                let e = match (a, b) {
                    (Obj::Setup(x), Obj::Setup(y)) => x == y,
                    (Obj::CReg(x), Obj::CReg(y)) => x == y,
                    (Obj::CLogin(x), Obj::CLogin(y)) => x == y,
                    (Obj::SLogin(x), Obj::SLogin(y)) => x == y,
                    (Obj::File(x), Obj::File(y)) => x == y,
                    (Obj::RReq(x), Obj::RReq(y)) => x == y,
                    (Obj::RResp(x), Obj::RResp(y)) => x == y,
                    (Obj::RUpl(x), Obj::RUpl(y)) => x == y,
                    (Obj::CReq(x), Obj::CReq(y)) => x == y,
                    (Obj::CResp(x), Obj::CResp(y)) => x == y,
                    (Obj::CFin(x), Obj::CFin(y)) => x == y,
                    (Obj::Sk(x), Obj::Sk(y)) => x == y,
                    (Obj::Pk(x), Obj::Pk(y)) => x == y,
                    _ => return Err("eq: kinds differ or unsupported".into()),
                };
                okv(json!({"eq": e}))
            }
            // ---------------------------------------------------------------- registration
            "creg_start" => {
                let pw = ghex(c, "pw")?;
                let r = self.with_rng(c, &mut draws, |_, rng| {
                    Ok(api(ClientRegistration::<Cs>::start(rng, &pw)))
                })?;
                match r {
                    Err(e) => errv(e),
                    Ok(res) => {
                        let rep = okv(json!({"msg": hexs(&res.message.serialize()), "state": hexs(&res.state.serialize())}));
                        self.put(c, "out_msg", Obj::RReq(res.message));
                        self.put(c, "out_state", Obj::CReg(res.state));
                        rep
                    }
                }
            }
            "sreg_start" => {
                let cred = ghex(c, "cred")?;
                let req = match self.obj(c, "req")? {
                    Obj::RReq(r) => r.clone(),
                    _ => return Err("req: not a registration request".into()),
                };
                let r = match self.obj(c, "setup")? {
                    Obj::Setup(s) => api(ServerRegistration::<Cs>::start(s, req, &cred)),
                    Obj::SetupX(s) => api(ServerRegistration::<Cs>::start(s, req, &cred)),
                    Obj::SetupHs(s) => api(ServerRegistration::<Cs>::start(s, req, &cred)),
                    Obj::SetupHl(s) => api(ServerRegistration::<Cs>::start(s, req, &cred)),
                    _ => return Err("setup: not a setup".into()),
                };
                match r {
                    Err(e) => errv(e),
                    Ok(res) => {
                        let rep = okv(json!({"msg": hexs(&res.message.serialize())}));
                        self.put(c, "out", Obj::RResp(res.message));
                        rep
                    }
                }
            }
            "creg_finish" => {
                let pw = ghex(c, "pw")?;
                let id_u = gohex(c, "id_u")?;
                let id_s = gohex(c, "id_s")?;
                let state = match self.obj(c, "state")? {
                    Obj::CReg(s) => s.clone(),
                    _ => return Err("state: not a client registration".into()),
                };
                let resp = match self.obj(c, "resp")? {
                    Obj::RResp(r) => r.clone(),
                    _ => return Err("resp: not a registration response".into()),
                };
                let r = self.with_rng(c, &mut draws, |m, rng| {
                    let ksf = m.ksf_ref(c)?;
                    let ids = Identifiers {
                        client: id_u.as_deref(),
                        server: id_s.as_deref(),
                    };
                    // the ways a caller can build the parameter struct
                    let params = match c["params_via"].as_str().unwrap_or("new") {
                        "literal" => ClientRegistrationFinishParameters { identifiers: ids, ksf },
                        "default" => {
                            let mut p_ = ClientRegistrationFinishParameters::<Cs>::default();
                            p_.identifiers = ids;
                            p_.ksf = ksf;
                            p_
                        }
                        "clone" => {
                            let p_ = ClientRegistrationFinishParameters::new(ids, ksf);
                            let q_ = p_.clone();
                            drop(p_);
                            q_
                        }
                        _ => ClientRegistrationFinishParameters::new(ids, ksf),
                    };
                    Ok(api(state.finish(rng, &pw, resp, params)))
                })?;
                match r {
                    Err(e) => errv(e),
                    Ok(res) => {
                        let rep = okv(json!({"msg": hexs(&res.message.serialize()),
                            "export_key": hexs(&res.export_key),
                            "server_s_pk": hexs(&res.server_s_pk.serialize())}));
                        self.put(c, "out", Obj::RUpl(res.message));
                        rep
                    }
                }
            }
            "sreg_finish" => {
                let upl = match self.obj(c, "upload")? {
                    Obj::RUpl(u) => u.clone(),
                    _ => return Err("upload: not a registration upload".into()),
                };
                let f = ServerRegistration::<Cs>::finish(upl);
                let rep = okv(json!({"file": hexs(&f.serialize())}));
                self.put(c, "out", Obj::File(f));
                rep
            }
            // ---------------------------------------------------------------- login
            "clogin_start" => {
                let pw = ghex(c, "pw")?;
                let r = self.with_rng(c, &mut draws, |_, rng| {
                    Ok(api(ClientLogin::<Cs>::start(rng, &pw)))
                })?;
                match r {
                    Err(e) => errv(e),
                    Ok(res) => {
                        let rep = okv(json!({"msg": hexs(&res.message.serialize()), "state": hexs(&res.state.serialize())}));
                        self.put(c, "out_msg", Obj::CReq(res.message));
                        self.put(c, "out_state", Obj::CLogin(res.state));
                        rep
                    }
                }
            }
            "slogin_start" => {
                let cred = ghex(c, "cred")?;
                let ctx = gohex(c, "ctx")?;
                let id_u = gohex(c, "id_u")?;
                let id_s = gohex(c, "id_s")?;
                let req = match self.obj(c, "req")? {
                    Obj::CReq(r) => r.clone(),
                    _ => return Err("req: not a credential request".into()),
                };
                let file = match c.get("file") {
                    None | Some(Value::Null) => None,
                    Some(_) => match self.obj(c, "file")? {
                        Obj::File(f) => Some(f.clone()),
                        _ => return Err("file: not a password file".into()),
                    },
                };
                enum St {
                    A(ServerSetup<Cs>),
                    B(ServerSetup<Cs, ExtKey<Kg>>),
                    C(ServerSetup<Cs, HndKey<Kg, HndShort>>),
                    D(ServerSetup<Cs, HndKey<Kg, HndLong>>),
                }
                let setup = match self.obj(c, "setup")? {
                    Obj::Setup(s) => St::A(s.clone()),
                    Obj::SetupX(s) => St::B(s.clone()),
                    Obj::SetupHs(s) => St::C(s.clone()),
                    Obj::SetupHl(s) => St::D(s.clone()),
                    _ => return Err("setup: not a setup".into()),
                };
                // cloning an ExtKey-backed setup is not an interface operation: discard nothing,
                // clone() is not logged.
                let r = self.with_rng(c, &mut draws, |_, rng| {
                    let ids = Identifiers {
                        client: id_u.as_deref(),
                        server: id_s.as_deref(),
                    };
                    let params = match c["params_via"].as_str().unwrap_or("literal") {
                        "default" => {
                            let mut p_ = ServerLoginStartParameters::default();
                            p_.context = ctx.as_deref();
                            p_.identifiers = ids;
                            p_
                        }
                        "clone" => {
                            let p_ = ServerLoginStartParameters {
                                context: ctx.as_deref(),
                                identifiers: ids,
                            };
                            let q_ = p_.clone();
                            drop(p_);
                            q_
                        }
                        _ => ServerLoginStartParameters {
                            context: ctx.as_deref(),
                            identifiers: ids,
                        },
                    };
                    Ok(match &setup {
                        St::A(s) => api(ServerLogin::<Cs>::start(rng, s, file, req, &cred, params)),
                        St::B(s) => api(ServerLogin::<Cs>::start(rng, s, file, req, &cred, params)),
                        St::C(s) => api(ServerLogin::<Cs>::start(rng, s, file, req, &cred, params)),
                        St::D(s) => api(ServerLogin::<Cs>::start(rng, s, file, req, &cred, params)),
                    })
                })?;
                match r {
                    Err(e) => errv(e),
                    Ok(res) => {
                        let rep = okv(json!({"msg": hexs(&res.message.serialize()), "state": hexs(&res.state.serialize())}));
                        self.put(c, "out_msg", Obj::CResp(res.message));
                        self.put(c, "out_state", Obj::SLogin(res.state));
                        rep
                    }
                }
            }
            "clogin_finish" => {
                let pw = ghex(c, "pw")?;
                let ctx = gohex(c, "ctx")?;
                let id_u = gohex(c, "id_u")?;
                let id_s = gohex(c, "id_s")?;
                let state = match self.obj(c, "state")? {
                    Obj::CLogin(s) => s.clone(),
                    _ => return Err("state: not a client login".into()),
                };
                let resp = match self.obj(c, "resp")? {
                    Obj::CResp(r) => r.clone(),
                    _ => return Err("resp: not a credential response".into()),
                };
                let ksf = self.ksf_ref(c)?;
                let ids = Identifiers {
                    client: id_u.as_deref(),
                    server: id_s.as_deref(),
                };
                let params = match c["params_via"].as_str().unwrap_or("new") {
                    "literal" => ClientLoginFinishParameters {
                        context: ctx.as_deref(),
                        identifiers: ids,
                        ksf,
                    },
                    "default" => {
                        let mut p_ = ClientLoginFinishParameters::<Cs>::default();
                        p_.context = ctx.as_deref();
                        p_.identifiers = ids;
                        p_.ksf = ksf;
                        p_
                    }
                    "clone" => {
                        let p_ = ClientLoginFinishParameters::new(ctx.as_deref(), ids, ksf);
                        let q_ = p_.clone();
                        drop(p_);
                        q_
                    }
                    _ => ClientLoginFinishParameters::new(ctx.as_deref(), ids, ksf),
                };
                match api(state.finish(&pw, resp, params)) {
                    Err(e) => errv(e),
                    Ok(res) => {
                        let rep = okv(json!({"msg": hexs(&res.message.serialize()),
                            "session_key": hexs(&res.session_key),
                            "export_key": hexs(&res.export_key),
                            "server_s_pk": hexs(&res.server_s_pk.serialize())}));
                        self.put(c, "out", Obj::CFin(res.message));
                        rep
                    }
                }
            }
            "slogin_finish" => {
                let state = match self.obj(c, "state")? {
                    Obj::SLogin(s) => s.clone(),
                    _ => return Err("state: not a server login".into()),
                };
                let fin = match self.obj(c, "fin")? {
                    Obj::CFin(f) => f.clone(),
                    _ => return Err("fin: not a finalization".into()),
                };
                match api(state.finish(fin)) {
                    Err(e) => errv(e),
                    Ok(res) => okv(json!({"session_key": hexs(&res.session_key)})),
                }
            }
            // ---------------------------------------------------------------- key API / group
            "g_derive" => {
                let seed = ghex(c, "seed")?;
                if seed.len() != <Kg as KeGroup>::SkLen::USIZE {
                    return Err("seed length must be Nsk".into());
                }
                match Kg::derive_auth_keypair::<OCs>(GenericArray::clone_from_slice(&seed)) {
                    Err(e) => errv(ierr(&e)),
                    Ok(sk) => okv(json!({"sk": hexs(&Kg::serialize_sk(sk)),
                        "pk": hexs(&Kg::serialize_pk(Kg::public_key(sk))),
                        "zero": bool::from(Kg::is_zero_scalar(sk))})),
                }
            }
            "g_random_sk" => {
                let sk = self.with_rng(c, &mut draws, |_, rng| Ok(Kg::random_sk(rng)))?;
                okv(json!({"sk": hexs(&Kg::serialize_sk(sk)), "zero": bool::from(Kg::is_zero_scalar(sk))}))
            }
            "k_all" => {
                // every route from private-key bytes to a public key, plus round trips
                let d = ghex(c, "sk")?;
                let mut o = serde_json::Map::new();
                match Kg::deserialize_sk(&d) {
                    Err(e) => {
                        o.insert("g_de_sk".into(), json!({"err": ierr(&e)}));
                    }
                    Ok(sk) => {
                        o.insert("g_sk_re".into(), hexs(&Kg::serialize_sk(sk)));
                        o.insert("g_pk".into(), hexs(&Kg::serialize_pk(Kg::public_key(sk))));
                        o.insert("g_zero".into(), json!(bool::from(Kg::is_zero_scalar(sk))));
                    }
                }
                match <PrivateKey<Kg> as SecretKey<Kg>>::deserialize(&d) {
                    Err(e) => {
                        o.insert("sk_de".into(), json!({"err": ierr(&e)}));
                    }
                    Ok(sk) => {
                        o.insert("sk_re".into(), hexs(&sk.serialize()));
                        match sk.public_key() {
                            Ok(pk) => {
                                o.insert("sk_pk".into(), hexs(&pk.serialize()));
                                // public key encoding round trip
                                match PublicKey::<Kg>::deserialize(&pk.serialize()) {
                                    Ok(pk2) => {
                                        o.insert("pk_rt".into(), hexs(&pk2.serialize()));
                                        o.insert("pk_rt_eq".into(), json!(pk2 == pk));
                                    }
                                    Err(e) => {
                                        o.insert("pk_rt".into(), json!({"err": ierr(&e)}));
                                    }
                                }
                            }
                            Err(e) => {
                                o.insert("sk_pk".into(), json!({"err": ierr(&e)}));
                            }
                        }
                        if let Ok(sk2) = <PrivateKey<Kg> as SecretKey<Kg>>::deserialize(&sk.serialize()) {
                            o.insert("sk_rt_eq".into(), json!(sk2 == sk));
                        }
                    }
                }
                match KeyPair::<Kg>::from_private_key_slice(&d) {
                    Err(e) => {
                        o.insert("kp".into(), json!({"err": perr(&e)}));
                    }
                    Ok(kp) => {
                        o.insert("kp_pk".into(), hexs(&kp.public().serialize()));
                        o.insert("kp_sk".into(), hexs(&kp.private().serialize()));
                        // from_private_key route
                        if let Ok(kp2) = KeyPair::<Kg>::from_private_key(kp.private().clone()) {
                            o.insert("kp2_pk".into(), hexs(&kp2.public().serialize()));
                        }
                        // serde round trip of the key pair
                        if let Ok(b) = bincode::serialize(&kp) {
                            if let Ok(kp3) = bincode::deserialize::<KeyPair<Kg>>(&b) {
                                o.insert("kp_serde_eq".into(), json!(kp3 == kp));
                            }
                        }
                    }
                }
                okv(Value::Object(o))
            }
            "k_dh" => {
                let skb = ghex(c, "sk")?;
                let pkb = ghex(c, "pk")?;
                let mut o = serde_json::Map::new();
                match (Kg::deserialize_sk(&skb), Kg::deserialize_pk(&pkb)) {
                    (Ok(sk), Ok(pk)) => {
                        o.insert("g_dh".into(), hexs(&Kg::diffie_hellman(pk, sk)));
                    }
                    (a, b) => {
                        o.insert("g_dh".into(), json!({"err_sk": a.err().map(|e| ierr(&e)), "err_pk": b.err().map(|e| ierr(&e))}));
                    }
                }
                match (
                    <PrivateKey<Kg> as SecretKey<Kg>>::deserialize(&skb),
                    PublicKey::<Kg>::deserialize(&pkb),
                ) {
                    (Ok(sk), Ok(pk)) => match sk.diffie_hellman(pk) {
                        Ok(out) => {
                            o.insert("sk_dh".into(), hexs(&out));
                        }
                        Err(e) => {
                            o.insert("sk_dh".into(), json!({"err": ierr(&e)}));
                        }
                    },
                    (a, b) => {
                        o.insert("sk_dh".into(), json!({"err_sk": a.err().map(|e| ierr(&e)), "err_pk": b.err().map(|e| ierr(&e))}));
                    }
                }
                okv(Value::Object(o))
            }
            // ---------------------------------------------------------------- in-process sweeps
            "sweep_sfin" => self.sweep_sfin(c)?,
            "sweep_cresp" => self.sweep_cresp(c)?,
            "sweep_de" => self.sweep_de(c)?,
            "fuzz_de" => self.fuzz_de(c)?,
            _ => return Err(format!("unknown op {op}")),
        };
        if !draws.is_null() {
            reply
                .as_object_mut()
                .unwrap()
                .insert("draws".into(), draws);
        }
        Ok(reply)
    }

    /// C03: every single-bit flip / single-byte substitution of `base` offered to clones of one
    /// pending server state. One outcome character per case; Python judges all of them.
    fn sweep_sfin(&mut self, c: &Value) -> Result<Value, String> {
        let base = ghex(c, "base")?;
        let state = match self.obj(c, "state")? {
            Obj::SLogin(s) => s.clone(),
            _ => return Err("state: not a server login".into()),
        };
        let vals = sweep_vals(c)?;
        let mut bits = String::new();
        let mut bytes = String::new();
        let mut accepted = Vec::new();
        let mut others: HashMap<String, u64> = HashMap::new();
        let mut run = |m: &[u8], tag: Value, out: &mut String| {
            let r = catch_unwind(AssertUnwindSafe(|| {
                match CredentialFinalization::<Cs>::deserialize(m) {
                    Err(e) => ('D', perr(&e), None),
                    Ok(f) => match state.clone().finish(f) {
                        Ok(r) => ('A', String::new(), Some(r.session_key.to_vec())),
                        Err(ProtocolError::InvalidLoginError) => ('L', String::new(), None),
                        Err(e) => ('E', perr(&e), None),
                    },
                }
            }));
            match r {
                Err(_) => {
                    out.push('P');
                    accepted.push(json!({"case": tag, "panic": take_panic()}));
                }
                Ok((ch, code, key)) => {
                    out.push(ch);
                    if ch == 'A' {
                        accepted.push(json!({"case": tag, "key": key.map(|k| hex::encode(k))}));
                    } else if ch != 'L' {
                        *others.entry(code).or_insert(0) += 1;
                    }
                }
            }
        };
        if c["bits"].as_bool().unwrap_or(true) {
            for i in 0..base.len() * 8 {
                let mut m = base.clone();
                m[i / 8] ^= 1 << (i % 8);
                run(&m, json!(["bit", i]), &mut bits);
            }
        }
        for off in 0..base.len() {
            for &v in &vals {
                if v == base[off] {
                    bytes.push('.');
                    continue;
                }
                let mut m = base.clone();
                m[off] = v;
                run(&m, json!(["byte", off, v]), &mut bytes);
            }
        }
        Ok(okv(json!({"bits": bits, "bytes": bytes, "nvals": vals.len(), "accepted": accepted, "others": others})))
    }

    /// C04: substitutions of a credential response delivered to clones of one pending client.
    fn sweep_cresp(&mut self, c: &Value) -> Result<Value, String> {
        let base = ghex(c, "base")?;
        let pw = ghex(c, "pw")?;
        let ctx = gohex(c, "ctx")?;
        let id_u = gohex(c, "id_u")?;
        let id_s = gohex(c, "id_s")?;
        let state = match self.obj(c, "state")? {
            Obj::CLogin(s) => s.clone(),
            _ => return Err("state: not a client login".into()),
        };
        let ksf = self.ksf_ref(c)?;
        let mode = c["mode"].as_str().unwrap_or("set"); // "set": byte := v ; "xor": byte ^= v
        let vals = sweep_vals(c)?;
        let from = c["from"].as_u64().unwrap_or(0) as usize;
        let to = (c["to"].as_u64().unwrap_or(base.len() as u64) as usize).min(base.len());
        let mut out = String::new();
        let mut notable = Vec::new();
        let mut others: HashMap<String, u64> = HashMap::new();
        for off in from..to {
            for &v in &vals {
                let nb = if mode == "xor" { base[off] ^ v } else { v };
                if nb == base[off] {
                    out.push('.');
                    continue;
                }
                let mut m = base.clone();
                m[off] = nb;
                let r = catch_unwind(AssertUnwindSafe(|| {
                    match CredentialResponse::<Cs>::deserialize(&m) {
                        Err(e) => ('d', perr(&e), None),
                        Ok(resp) => {
                            // different bytes that decode to the genuine content (an alias encoding): still
                            // delivered; outcome letters a / l / e instead of A / L / E
                            let alias = resp.serialize().as_slice() == base.as_slice();
                            let params = ClientLoginFinishParameters::new(
                                ctx.as_deref(),
                                Identifiers {
                                    client: id_u.as_deref(),
                                    server: id_s.as_deref(),
                                },
                                ksf,
                            );
                            match state.clone().finish(&pw, resp, params) {
                                Ok(r) => (if alias { 'a' } else { 'A' }, String::new(), Some(r.session_key.to_vec())),
                                Err(ProtocolError::InvalidLoginError) => (if alias { 'l' } else { 'L' }, String::new(), None),
                                Err(e) => (if alias { 'e' } else { 'E' }, perr(&e), None),
                            }
                        }
                    }
                }));
                match r {
                    Err(_) => {
                        out.push('P');
                        notable.push(json!({"off": off, "val": nb, "panic": take_panic()}));
                    }
                    Ok((ch, code, key)) => {
                        out.push(ch);
                        if ch == 'A' || ch == 'a' {
                            notable.push(json!({"off": off, "val": nb, "key": key.map(hex::encode)}));
                        } else if ch == 'E' || ch == 'd' {
                            *others.entry(format!("{ch}:{code}")).or_insert(0) += 1;
                        }
                    }
                }
            }
        }
        // the KSF log of a sweep is huge and uninformative; keep only its length
        let nk = drain(&KSF_LOG).len();
        Ok(okv(json!({"out": out, "from": from, "to": to, "nvals": vals.len(), "notable": notable, "others": others, "ksf_calls": nk})))
    }

    /// C10: substitutions of a valid encoding given to one decoder.
    fn sweep_de(&mut self, c: &Value) -> Result<Value, String> {
        let base = ghex(c, "base")?;
        let kind = gs(c, "kind")?;
        let mode = c["mode"].as_str().unwrap_or("set");
        let vals = sweep_vals(c)?;
        let from = c["from"].as_u64().unwrap_or(0) as usize;
        let to = (c["to"].as_u64().unwrap_or(base.len() as u64) as usize).min(base.len());
        let mut out = String::new();
        let mut notable = Vec::new();
        let mut errs: HashMap<String, u64> = HashMap::new();
        for off in from..to {
            for &v in &vals {
                let nb = if mode == "xor" { base[off] ^ v } else { v };
                if nb == base[off] {
                    out.push('.');
                    continue;
                }
                let mut m = base.clone();
                m[off] = nb;
                let r = catch_unwind(AssertUnwindSafe(|| native_de(kind, &m)));
                match r {
                    Err(_) => {
                        out.push('P');
                        notable.push(json!({"off": off, "val": nb, "panic": take_panic()}));
                    }
                    Ok(Err(e)) => return Err(e),
                    Ok(Ok(Err(code))) => {
                        out.push('e');
                        *errs.entry(code).or_insert(0) += 1;
                    }
                    Ok(Ok(Ok(o))) => {
                        let re = o.native();
                        if re == m {
                            out.push('r');
                        } else {
                            out.push('X');
                            if notable.len() < 64 {
                                notable.push(json!({"off": off, "val": nb, "re": hex::encode(re)}));
                            }
                        }
                    }
                }
            }
        }
        drain(&DH_LOG);
        Ok(okv(json!({"out": out, "from": from, "to": to, "nvals": vals.len(), "notable": notable, "errs": errs})))
    }

    /// C12: volume fuzzing of one decoder (native or serde) with random strings and structured
    /// mutations of valid encodings. Reports outcome counts, panics and non-canonical accepts.
    fn fuzz_de(&mut self, c: &Value) -> Result<Value, String> {
        let kind = gs(c, "kind")?;
        let codec = c["codec"].as_str().unwrap_or("native");
        let n = c["n"].as_u64().unwrap_or(1000);
        let seeds: Vec<Vec<u8>> = match c["bases"].as_array() {
            Some(a) => a
                .iter()
                .filter_map(|v| v.as_str())
                .filter_map(|s| hex::decode(s).ok())
                .collect(),
            None => vec![],
        };
        let mut rng = StreamRng::new(&ghex(c, "seed")?, &[]);
        let mut counts: HashMap<String, u64> = HashMap::new();
        let mut panics = Vec::new();
        let mut noncanon = Vec::new();
        let mut decoded = 0u64;
        for i in 0..n {
            let m = mutate(&mut rng, &seeds, i);
            let r = catch_unwind(AssertUnwindSafe(|| match codec {
                "native" => native_de(kind, &m),
                "bincode" => bincode_de(kind, &m),
                _ => json_de(kind, &String::from_utf8_lossy(&m)),
            }));
            match r {
                Err(_) => {
                    if panics.len() < 16 {
                        panics.push(json!({"input": hex::encode(&m), "panic": take_panic()}));
                    }
                    *counts.entry("PANIC".into()).or_insert(0) += 1;
                }
                Ok(Err(e)) => return Err(e),
                Ok(Ok(Err(code))) => {
                    let code = if code.starts_with("serde:") { "serde".to_string() } else { code };
                    *counts.entry(code).or_insert(0) += 1;
                }
                Ok(Ok(Ok(o))) => {
                    decoded += 1;
                    if codec == "native" && o.native() != m && noncanon.len() < 16 {
                        noncanon.push(hex::encode(&m));
                    }
                }
            }
        }
        drain(&DH_LOG);
        drain(&EXT_LOG);
        Ok(okv(json!({"n": n, "decoded": decoded, "counts": counts, "panics": panics, "noncanon": noncanon})))
    }
}

fn sweep_vals(c: &Value) -> Result<Vec<u8>, String> {
    match &c["vals"] {
        Value::String(s) if s == "all" => Ok((0..=255u8).collect()),
        Value::Array(a) => Ok(a.iter().filter_map(|v| v.as_u64()).map(|v| v as u8).collect()),
        Value::Null => Ok((0..=255u8).collect()),
        _ => Err("vals must be \"all\" or a list".into()),
    }
}

fn mutate(rng: &mut StreamRng, bases: &[Vec<u8>], i: u64) -> Vec<u8> {
    use rand::RngCore;
    let pick = rng.next_u32();
    rng.draws.clear();
    if bases.is_empty() || pick % 8 == 0 {
        // uniform noise of a random length near the interesting sizes
        let len = (rng.next_u32() % 600) as usize;
        let mut v = vec![0u8; len];
        rng.fill_bytes(&mut v);
        rng.draws.clear();
        return v;
    }
    let mut v = bases[(pick as usize / 8) % bases.len()].clone();
    let nmut = 1 + (rng.next_u32() % 3);
    for _ in 0..nmut {
        let what = rng.next_u32() % 7;
        let r1 = rng.next_u32() as usize;
        let r2 = rng.next_u32();
        match what {
            0 if !v.is_empty() => {
                let p = r1 % v.len();
                v[p] ^= 1 << (r2 % 8);
            }
            1 if !v.is_empty() => {
                let p = r1 % v.len();
                v[p] = r2 as u8;
            }
            2 if !v.is_empty() => {
                v.truncate(r1 % v.len());
            }
            3 => {
                let extra = (r2 % 70) as usize;
                for k in 0..extra {
                    v.push((r1 >> (k % 24)) as u8);
                }
            }
            4 if bases.len() > 1 && !v.is_empty() => {
                // splice a window from another valid encoding at the same offset
                let other = &bases[(r2 as usize) % bases.len()];
                let p = r1 % v.len();
                let l = 1 + (r2 as usize >> 8) % 70;
                for k in p..(p + l).min(v.len()).min(other.len()) {
                    v[k] = other[k];
                }
            }
            5 if !v.is_empty() => {
                let p = r1 % v.len();
                let l = 1 + (r2 as usize) % 40;
                for k in p..(p + l).min(v.len()) {
                    v[k] = if i % 2 == 0 { 0 } else { 0xff };
                }
            }
            _ if !v.is_empty() => {
                let p = r1 % v.len();
                v.remove(p);
            }
            _ => {}
        }
    }
    rng.draws.clear();
    v
}

impl Machine for M {
    fn exec_cmd(&mut self, c: &Value) -> Value {
        let r = catch_unwind(AssertUnwindSafe(|| self.exec(c)));
        let mut reply = match r {
            Ok(Ok(v)) => v,
            Ok(Err(h)) => json!({"ok": false, "harness_error": h}),
            Err(_) => json!({"ok": false, "panic": take_panic()}),
        };
        attach_logs(&mut reply);
        reply
    }
}
