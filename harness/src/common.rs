//! Helpers shared by every suite instantiation.

use std::convert::Infallible;

use opaque_ke::errors::{InternalError, ProtocolError};
use serde_json::Value;

use crate::proxy::ExtErr;

pub trait Machine {
    fn exec_cmd(&mut self, c: &Value) -> Value;
}

pub fn gs<'a>(c: &'a Value, k: &str) -> Result<&'a str, String> {
    c.get(k)
        .and_then(|v| v.as_str())
        .ok_or_else(|| format!("missing string field {k}"))
}

pub fn ghex(c: &Value, k: &str) -> Result<Vec<u8>, String> {
    decode_bytes(c.get(k).ok_or_else(|| format!("missing field {k}"))?)
        .map_err(|e| format!("field {k}: {e}"))
}

pub fn gohex(c: &Value, k: &str) -> Result<Option<Vec<u8>>, String> {
    match c.get(k) {
        None | Some(Value::Null) => Ok(None),
        Some(v) => decode_bytes(v).map(Some).map_err(|e| format!("field {k}: {e}")),
    }
}

/// bytes are given as a hex string, or compactly as {"rep": "hex", "n": count, "tail": "hex"}
/// (pattern repeated n times then a tail), so that 65535-byte arguments stay small on the wire.
fn decode_bytes(v: &Value) -> Result<Vec<u8>, String> {
    match v {
        Value::String(s) => hex::decode(s).map_err(|e| format!("{e}")),
        Value::Object(o) => {
            let rep = hex::decode(o.get("rep").and_then(|v| v.as_str()).unwrap_or(""))
                .map_err(|e| format!("{e}"))?;
            let n = o.get("n").and_then(|v| v.as_u64()).unwrap_or(0) as usize;
            let tail = hex::decode(o.get("tail").and_then(|v| v.as_str()).unwrap_or(""))
                .map_err(|e| format!("{e}"))?;
            let mut out = Vec::with_capacity(rep.len() * n + tail.len());
            for _ in 0..n {
                out.extend_from_slice(&rep);
            }
            out.extend_from_slice(&tail);
            Ok(out)
        }
        _ => Err("expected hex string or {rep,n,tail}".into()),
    }
}

pub trait CustomTag {
    fn tag(&self) -> String;
}

impl CustomTag for Infallible {
    fn tag(&self) -> String {
        match *self {}
    }
}

impl CustomTag for ExtErr {
    fn tag(&self) -> String {
        format!("{}", self.0)
    }
}

/// Canonical error path, computed structurally (never from Debug/Display text).
pub fn ierr<T: CustomTag>(e: &InternalError<T>) -> String {
    match e {
        InternalError::Custom(t) => format!("Custom({})", t.tag()),
        InternalError::InvalidByteSequence => "InvalidByteSequence".into(),
        InternalError::SizeError { .. } => "SizeError".into(),
        InternalError::PointError => "PointError".into(),
        InternalError::HashToScalar => "HashToScalar".into(),
        InternalError::HkdfError => "HkdfError".into(),
        InternalError::HmacError => "HmacError".into(),
        InternalError::KsfError => "KsfError".into(),
        InternalError::SealOpenHmacError => "SealOpenHmacError".into(),
        InternalError::IncompatibleEnvelopeModeError => "IncompatibleEnvelopeModeError".into(),
        InternalError::OprfError(v) => format!(
            "OprfError/{}",
            match v {
                voprf::Error::Info => "Info",
                voprf::Error::Input => "Input",
                voprf::Error::DeriveKeyPair => "DeriveKeyPair",
                voprf::Error::Deserialization => "Deserialization",
                voprf::Error::Batch => "Batch",
                voprf::Error::ProofVerification => "ProofVerification",
                voprf::Error::Protocol => "Protocol",
            }
        ),
        InternalError::OprfInternalError(v) => format!(
            "OprfInternalError/{}",
            match v {
                voprf::InternalError::Input => "Input",
                voprf::InternalError::I2osp => "I2osp",
            }
        ),
    }
}

pub fn perr<T: CustomTag>(e: &ProtocolError<T>) -> String {
    match e {
        ProtocolError::LibraryError(i) => format!("LibraryError/{}", ierr(i)),
        ProtocolError::InvalidLoginError => "InvalidLoginError".into(),
        ProtocolError::SerializationError => "SerializationError".into(),
        ProtocolError::ReflectedValueError => "ReflectedValueError".into(),
        ProtocolError::IdentityGroupElementError => "IdentityGroupElementError".into(),
    }
}
