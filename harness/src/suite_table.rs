suite!(s_r255_r255, "r255+r255", R255, R255, HKsf);
suite!(s_r255_p256, "r255+p256", R255, P256, HKsf);
suite!(s_r255_p384, "r255+p384", R255, P384, HKsf);
suite!(s_r255_p521, "r255+p521", R255, P521, HKsf);
suite!(s_r255_x25519, "r255+x25519", R255, X255, HKsf);
suite!(s_p256_r255, "p256+r255", P256, R255, HKsf);
suite!(s_p256_p256, "p256+p256", P256, P256, HKsf);
suite!(s_p256_p384, "p256+p384", P256, P384, HKsf);
suite!(s_p256_p521, "p256+p521", P256, P521, HKsf);
suite!(s_p256_x25519, "p256+x25519", P256, X255, HKsf);
suite!(s_p384_r255, "p384+r255", P384, R255, HKsf);
suite!(s_p384_p256, "p384+p256", P384, P256, HKsf);
suite!(s_p384_p384, "p384+p384", P384, P384, HKsf);
suite!(s_p384_p521, "p384+p521", P384, P521, HKsf);
suite!(s_p384_x25519, "p384+x25519", P384, X255, HKsf);
suite!(s_p521_r255, "p521+r255", P521, R255, HKsf);
suite!(s_p521_p256, "p521+p256", P521, P256, HKsf);
suite!(s_p521_p384, "p521+p384", P521, P384, HKsf);
suite!(s_p521_p521, "p521+p521", P521, P521, HKsf);
suite!(s_p521_x25519, "p521+x25519", P521, X255, HKsf);
suite!(i_r255_r255, "r255+r255:id", R255, R255, opaque_ke::ksf::Identity);
suite!(i_r255_p256, "r255+p256:id", R255, P256, opaque_ke::ksf::Identity);
suite!(i_r255_p384, "r255+p384:id", R255, P384, opaque_ke::ksf::Identity);
suite!(i_r255_p521, "r255+p521:id", R255, P521, opaque_ke::ksf::Identity);
suite!(i_r255_x25519, "r255+x25519:id", R255, X255, opaque_ke::ksf::Identity);
suite!(i_p256_r255, "p256+r255:id", P256, R255, opaque_ke::ksf::Identity);
suite!(i_p256_p256, "p256+p256:id", P256, P256, opaque_ke::ksf::Identity);
suite!(i_p256_p384, "p256+p384:id", P256, P384, opaque_ke::ksf::Identity);
suite!(i_p256_p521, "p256+p521:id", P256, P521, opaque_ke::ksf::Identity);
suite!(i_p256_x25519, "p256+x25519:id", P256, X255, opaque_ke::ksf::Identity);
suite!(i_p384_r255, "p384+r255:id", P384, R255, opaque_ke::ksf::Identity);
suite!(i_p384_p256, "p384+p256:id", P384, P256, opaque_ke::ksf::Identity);
suite!(i_p384_p384, "p384+p384:id", P384, P384, opaque_ke::ksf::Identity);
suite!(i_p384_p521, "p384+p521:id", P384, P521, opaque_ke::ksf::Identity);
suite!(i_p384_x25519, "p384+x25519:id", P384, X255, opaque_ke::ksf::Identity);
suite!(i_p521_r255, "p521+r255:id", P521, R255, opaque_ke::ksf::Identity);
suite!(i_p521_p256, "p521+p256:id", P521, P256, opaque_ke::ksf::Identity);
suite!(i_p521_p384, "p521+p384:id", P521, P384, opaque_ke::ksf::Identity);
suite!(i_p521_p521, "p521+p521:id", P521, P521, opaque_ke::ksf::Identity);
suite!(i_p521_x25519, "p521+x25519:id", P521, X255, opaque_ke::ksf::Identity);
suite!(a_r255_r255, "r255+r255:argon2", R255, R255, argon2::Argon2<'static>);
suite!(a_p256_x25519, "p256+x25519:argon2", P256, X255, argon2::Argon2<'static>);
suite!(a_p384_p384, "p384+p384:argon2", P384, P384, argon2::Argon2<'static>);
suite!(a_p521_p256, "p521+p256:argon2", P521, P256, argon2::Argon2<'static>);
suite!(m_r255_r255, "r255+r255:mon", R255, MonKe<R255>, HKsf);
suite!(m_p256_p256, "p256+p256:mon", P256, MonKe<P256>, HKsf);
suite!(m_p384_p384, "p384+p384:mon", P384, MonKe<P384>, HKsf);
suite!(m_p521_p521, "p521+p521:mon", P521, MonKe<P521>, HKsf);
suite!(m_p256_x25519, "p256+x25519:mon", P256, MonKe<X255>, HKsf);
pub const SUITES: &[&str] = &[
    "r255+r255",
    "r255+p256",
    "r255+p384",
    "r255+p521",
    "r255+x25519",
    "p256+r255",
    "p256+p256",
    "p256+p384",
    "p256+p521",
    "p256+x25519",
    "p384+r255",
    "p384+p256",
    "p384+p384",
    "p384+p521",
    "p384+x25519",
    "p521+r255",
    "p521+p256",
    "p521+p384",
    "p521+p521",
    "p521+x25519",
    "r255+r255:id",
    "r255+p256:id",
    "r255+p384:id",
    "r255+p521:id",
    "r255+x25519:id",
    "p256+r255:id",
    "p256+p256:id",
    "p256+p384:id",
    "p256+p521:id",
    "p256+x25519:id",
    "p384+r255:id",
    "p384+p256:id",
    "p384+p384:id",
    "p384+p521:id",
    "p384+x25519:id",
    "p521+r255:id",
    "p521+p256:id",
    "p521+p384:id",
    "p521+p521:id",
    "p521+x25519:id",
    "r255+r255:argon2",
    "p256+x25519:argon2",
    "p384+p384:argon2",
    "p521+p256:argon2",
    "r255+r255:mon",
    "p256+p256:mon",
    "p384+p384:mon",
    "p521+p521:mon",
    "p256+x25519:mon",
];
pub fn make(name: &str) -> Option<Box<dyn Machine>> {
    match name {
        "r255+r255" => Some(Box::new(s_r255_r255::M::new())),
        "r255+p256" => Some(Box::new(s_r255_p256::M::new())),
        "r255+p384" => Some(Box::new(s_r255_p384::M::new())),
        "r255+p521" => Some(Box::new(s_r255_p521::M::new())),
        "r255+x25519" => Some(Box::new(s_r255_x25519::M::new())),
        "p256+r255" => Some(Box::new(s_p256_r255::M::new())),
        "p256+p256" => Some(Box::new(s_p256_p256::M::new())),
        "p256+p384" => Some(Box::new(s_p256_p384::M::new())),
        "p256+p521" => Some(Box::new(s_p256_p521::M::new())),
        "p256+x25519" => Some(Box::new(s_p256_x25519::M::new())),
        "p384+r255" => Some(Box::new(s_p384_r255::M::new())),
        "p384+p256" => Some(Box::new(s_p384_p256::M::new())),
        "p384+p384" => Some(Box::new(s_p384_p384::M::new())),
        "p384+p521" => Some(Box::new(s_p384_p521::M::new())),
        "p384+x25519" => Some(Box::new(s_p384_x25519::M::new())),
        "p521+r255" => Some(Box::new(s_p521_r255::M::new())),
        "p521+p256" => Some(Box::new(s_p521_p256::M::new())),
        "p521+p384" => Some(Box::new(s_p521_p384::M::new())),
        "p521+p521" => Some(Box::new(s_p521_p521::M::new())),
        "p521+x25519" => Some(Box::new(s_p521_x25519::M::new())),
        "r255+r255:id" => Some(Box::new(i_r255_r255::M::new())),
        "r255+p256:id" => Some(Box::new(i_r255_p256::M::new())),
        "r255+p384:id" => Some(Box::new(i_r255_p384::M::new())),
        "r255+p521:id" => Some(Box::new(i_r255_p521::M::new())),
        "r255+x25519:id" => Some(Box::new(i_r255_x25519::M::new())),
        "p256+r255:id" => Some(Box::new(i_p256_r255::M::new())),
        "p256+p256:id" => Some(Box::new(i_p256_p256::M::new())),
        "p256+p384:id" => Some(Box::new(i_p256_p384::M::new())),
        "p256+p521:id" => Some(Box::new(i_p256_p521::M::new())),
        "p256+x25519:id" => Some(Box::new(i_p256_x25519::M::new())),
        "p384+r255:id" => Some(Box::new(i_p384_r255::M::new())),
        "p384+p256:id" => Some(Box::new(i_p384_p256::M::new())),
        "p384+p384:id" => Some(Box::new(i_p384_p384::M::new())),
        "p384+p521:id" => Some(Box::new(i_p384_p521::M::new())),
        "p384+x25519:id" => Some(Box::new(i_p384_x25519::M::new())),
        "p521+r255:id" => Some(Box::new(i_p521_r255::M::new())),
        "p521+p256:id" => Some(Box::new(i_p521_p256::M::new())),
        "p521+p384:id" => Some(Box::new(i_p521_p384::M::new())),
        "p521+p521:id" => Some(Box::new(i_p521_p521::M::new())),
        "p521+x25519:id" => Some(Box::new(i_p521_x25519::M::new())),
        "r255+r255:argon2" => Some(Box::new(a_r255_r255::M::new())),
        "p256+x25519:argon2" => Some(Box::new(a_p256_x25519::M::new())),
        "p384+p384:argon2" => Some(Box::new(a_p384_p384::M::new())),
        "p521+p256:argon2" => Some(Box::new(a_p521_p256::M::new())),
        "r255+r255:mon" => Some(Box::new(m_r255_r255::M::new())),
        "p256+p256:mon" => Some(Box::new(m_p256_p256::M::new())),
        "p384+p384:mon" => Some(Box::new(m_p384_p384::M::new())),
        "p521+p521:mon" => Some(Box::new(m_p521_p521::M::new())),
        "p256+x25519:mon" => Some(Box::new(m_p256_x25519::M::new())),
        _ => None,
    }
}
