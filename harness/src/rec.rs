//! Recording, replayable RNG and the thread-local event logs drained per command.
//!
//! Stream definition (mirrored in monitors/okv.py): an explicit `tape` prefix, then
//! byte i of the tail = SHA-512(seed || LE64(i / 64))[i % 64].

use std::cell::RefCell;

use rand::{CryptoRng, RngCore};
use serde_json::{json, Value};
use sha2::{Digest, Sha512};

pub struct StreamRng {
    tape: Vec<u8>,
    seed: Vec<u8>,
    /// absolute position in tape||tail
    pub pos: u64,
    block_no: u64,
    block: [u8; 64],
    /// lengths of every draw since the last `take_draws`
    pub draws: Vec<u64>,
    /// (kind) of non-fill draws, recorded as negative markers: 4 => next_u32, 8 => next_u64
    pub total_draws: u64,
    /// fault injection: Some(n) => the n-th draw from now fails (try_fill_bytes returns Err, the infallible
    /// entry points panic with the RNG's own message, as OsRng does when the OS source is unavailable)
    pub fail_at: Option<u64>,
}

impl StreamRng {
    pub fn new(seed: &[u8], tape: &[u8]) -> Self {
        let mut r = StreamRng {
            tape: tape.to_vec(),
            seed: seed.to_vec(),
            pos: 0,
            block_no: u64::MAX,
            block: [0u8; 64],
            draws: Vec::new(),
            total_draws: 0,
            fail_at: None,
        };
        r.load_block(0);
        r
    }

    fn load_block(&mut self, n: u64) {
        if self.block_no == n {
            return;
        }
        let mut h = Sha512::new();
        h.update(&self.seed);
        h.update(n.to_le_bytes());
        self.block.copy_from_slice(&h.finalize());
        self.block_no = n;
    }

    fn next_byte(&mut self) -> u8 {
        let p = self.pos;
        self.pos += 1;
        if (p as usize) < self.tape.len() {
            return self.tape[p as usize];
        }
        let i = p - self.tape.len() as u64;
        self.load_block(i / 64);
        self.block[(i % 64) as usize]
    }

    fn gate(&mut self) -> bool {
        match self.fail_at {
            Some(1) => {
                self.fail_at = None;
                true
            }
            Some(n) => {
                self.fail_at = Some(n - 1);
                false
            }
            None => false,
        }
    }

    fn fill(&mut self, dest: &mut [u8]) {
        if self.gate() {
            panic!("okv-rng-failure: the caller-supplied RNG failed");
        }
        self.fill_inner(dest)
    }

    fn fill_inner(&mut self, dest: &mut [u8]) {
        for b in dest.iter_mut() {
            *b = self.next_byte();
        }
        self.draws.push(dest.len() as u64);
        self.total_draws += 1;
    }

    pub fn take_draws(&mut self) -> Vec<u64> {
        std::mem::take(&mut self.draws)
    }
}

impl RngCore for StreamRng {
    fn next_u32(&mut self) -> u32 {
        let mut b = [0u8; 4];
        self.fill(&mut b);
        u32::from_le_bytes(b)
    }
    fn next_u64(&mut self) -> u64 {
        let mut b = [0u8; 8];
        self.fill(&mut b);
        u64::from_le_bytes(b)
    }
    fn fill_bytes(&mut self, dest: &mut [u8]) {
        self.fill(dest)
    }
    fn try_fill_bytes(&mut self, dest: &mut [u8]) -> Result<(), rand::Error> {
        if self.gate() {
            return Err(rand::Error::from(std::num::NonZeroU32::new(rand::Error::CUSTOM_START + 7).unwrap()));
        }
        self.fill_inner(dest);
        Ok(())
    }
}

impl CryptoRng for StreamRng {}

thread_local! {
    pub static KSF_LOG: RefCell<Vec<Value>> = RefCell::new(Vec::new());
    pub static EXT_LOG: RefCell<Vec<Value>> = RefCell::new(Vec::new());
    pub static DH_LOG: RefCell<Vec<Value>> = RefCell::new(Vec::new());
    /// countdown: Some(n) => the n-th call from now fails (n>=1)
    pub static KSF_FAIL: RefCell<Option<u64>> = RefCell::new(None);
    pub static EXT_FAIL: RefCell<Option<(u64, u32)>> = RefCell::new(None);
    pub static KSF_INST: RefCell<u64> = RefCell::new(0);
    pub static PANIC_INFO: RefCell<Option<(String, String)>> = RefCell::new(None);
    pub static DH_LOG_ON: RefCell<bool> = RefCell::new(true);
    /// when set, ExtKey's serialized form is an opaque handle (bytes xor 0xA5), not the raw scalar
    pub static EXT_OPAQUE: RefCell<bool> = RefCell::new(false);
}

pub fn drain(log: &'static std::thread::LocalKey<RefCell<Vec<Value>>>) -> Vec<Value> {
    log.with(|l| std::mem::take(&mut *l.borrow_mut()))
}

pub fn attach_logs(reply: &mut Value) {
    let k = drain(&KSF_LOG);
    let e = drain(&EXT_LOG);
    let d = drain(&DH_LOG);
    if let Some(o) = reply.as_object_mut() {
        if !k.is_empty() {
            o.insert("ksf".into(), json!(k));
        }
        if !e.is_empty() {
            o.insert("ext".into(), json!(e));
        }
        if !d.is_empty() {
            o.insert("dh".into(), json!(d));
        }
    }
}

pub fn install_panic_hook() {
    std::panic::set_hook(Box::new(|info| {
        let msg = if let Some(s) = info.payload().downcast_ref::<&str>() {
            s.to_string()
        } else if let Some(s) = info.payload().downcast_ref::<String>() {
            s.clone()
        } else {
            "<non-string panic payload>".to_string()
        };
        let loc = info
            .location()
            .map(|l| format!("{}:{}", l.file(), l.line()))
            .unwrap_or_default();
        PANIC_INFO.with(|p| *p.borrow_mut() = Some((msg, loc)));
    }));
}

pub fn take_panic() -> Value {
    let p = PANIC_INFO.with(|p| p.borrow_mut().take());
    match p {
        Some((msg, loc)) => json!({"msg": msg, "loc": loc}),
        None => json!({"msg": "?", "loc": "?"}),
    }
}
