//! The suites: OPRF in {ristretto255, P-256, P-384, P-521} x KE group in {ristretto255, P-256,
//! P-384, P-521, Curve25519}, with KSF variants and the KeGroup proxy variants.

#![allow(clippy::all)]

use std::collections::HashMap;
use std::panic::{catch_unwind, AssertUnwindSafe};

use generic_array::typenum::Unsigned;
use generic_array::GenericArray;
use opaque_ke::errors::ProtocolError;
use opaque_ke::key_exchange::group::KeGroup;
use opaque_ke::key_exchange::tripledh::TripleDh;
use opaque_ke::keypair::{KeyPair, PrivateKey, PublicKey, SecretKey};
use opaque_ke::{
    CipherSuite, ClientLogin, ClientLoginFinishParameters, ClientRegistration,
    ClientRegistrationFinishParameters, CredentialFinalization, CredentialRequest,
    CredentialResponse, Identifiers, RegistrationRequest, RegistrationResponse,
    RegistrationUpload, ServerLogin, ServerLoginStartParameters, ServerRegistration, ServerSetup,
};
use serde_json::{json, Value};

use crate::common::*;
use crate::proxy::*;
use crate::rec::*;

macro_rules! suite {
    ($m:ident, $name:expr, $oprf:ty, $ke:ty, $ksf:ty) => {
        pub mod $m {
            use super::*;
            pub struct Cs;
            impl CipherSuite for Cs {
                type OprfCs = $oprf;
                type KeGroup = $ke;
                type KeyExchange = TripleDh;
                type Ksf = $ksf;
            }
            pub const NAME: &str = $name;
            include!("machine_body.rs");
        }
    };
}

type R255 = opaque_ke::Ristretto255;
type X255 = opaque_ke::Curve25519;
type P256 = p256::NistP256;
type P384 = p384::NistP384;
type P521 = p521::NistP521;

include!("suite_table.rs");
