//! Monitors standing at the caller-supplied trait boundaries of opaque-ke:
//! HKsf (Ksf), ExtKey<G> (SecretKey), MonKe<G> (KeGroup).

use std::marker::PhantomData;

use digest::core_api::BlockSizeUser;
use digest::{FixedOutput, HashMarker, OutputSizeUser};
use generic_array::typenum::{IsLess, IsLessOrEqual, U256};
use generic_array::{ArrayLength, GenericArray};
use opaque_ke::errors::InternalError;
use opaque_ke::key_exchange::group::KeGroup;
use opaque_ke::keypair::{PrivateKey, PublicKey, SecretKey};
use opaque_ke::ksf::Ksf;
use rand::{CryptoRng, RngCore};
use serde_json::{json, Value};
use sha2::{Digest, Sha512};

use crate::rec::{DH_LOG, DH_LOG_ON, EXT_FAIL, EXT_LOG, EXT_OPAQUE, KSF_FAIL, KSF_INST, KSF_LOG};

// ---------------------------------------------------------------------------------------------
// Ksf
// ---------------------------------------------------------------------------------------------

pub const HKSF_DEFAULT_PARAM: u32 = 1;

/// Harness key-stretching function. param 0 = identity, param p>0 = p rounds of a SHA-512 based
/// expander (mirrored in monitors/okv.py `hksf`).
pub struct HKsf {
    pub inst: u64,
    pub param: u32,
    pub from_default: bool,
}

fn next_inst() -> u64 {
    KSF_INST.with(|c| {
        let mut c = c.borrow_mut();
        *c += 1;
        *c
    })
}

impl HKsf {
    pub fn new(param: u32) -> Self {
        HKsf {
            inst: next_inst(),
            param,
            from_default: false,
        }
    }
}

impl Default for HKsf {
    fn default() -> Self {
        HKsf {
            inst: next_inst(),
            param: HKSF_DEFAULT_PARAM,
            from_default: true,
        }
    }
}

pub fn hksf_stretch(param: u32, input: &[u8]) -> Vec<u8> {
    let l = input.len();
    let mut cur = input.to_vec();
    for round in 0..param {
        let mut out = Vec::with_capacity(l + 64);
        let mut ctr = 0u8;
        while out.len() < l {
            let mut h = Sha512::new();
            h.update(b"okv-ksf");
            h.update(param.to_le_bytes());
            h.update(round.to_le_bytes());
            h.update([ctr]);
            h.update(&cur);
            out.extend_from_slice(&h.finalize());
            ctr += 1;
        }
        out.truncate(l);
        cur = out;
    }
    cur
}

impl Ksf for HKsf {
    fn hash<L: ArrayLength<u8>>(
        &self,
        input: GenericArray<u8, L>,
    ) -> Result<GenericArray<u8, L>, InternalError> {
        let fail = KSF_FAIL.with(|f| {
            let mut f = f.borrow_mut();
            match *f {
                Some(1) => {
                    *f = None;
                    true
                }
                Some(n) => {
                    *f = Some(n - 1);
                    false
                }
                None => false,
            }
        });
        KSF_LOG.with(|l| {
            l.borrow_mut().push(json!({
                "inst": self.inst, "param": self.param, "default": self.from_default,
                "in": hex::encode(&input), "len": L::USIZE, "fail": fail
            }))
        });
        if fail {
            return Err(InternalError::KsfError);
        }
        let out = hksf_stretch(self.param, &input);
        Ok(GenericArray::clone_from_slice(&out))
    }
}

/// How the interpreter builds KSF instances for a suite.
pub trait KsfSpec: Ksf {
    const KIND: &'static str;
    fn make(param: &Value) -> Result<Self, String>;
    fn describe(&self) -> Value;
    /// Reference evaluation of the stretching function computed WITHOUT opaque-ke's `Ksf` adapter (only for
    /// KSFs that are not mirrored in Python): what the specification says the configured function returns
    /// for `input` with an output of `len` bytes.
    fn reference(&self, _input: &[u8], _len: usize) -> Option<Result<Vec<u8>, String>> {
        None
    }
}

impl KsfSpec for HKsf {
    const KIND: &'static str = "hksf";
    fn make(param: &Value) -> Result<Self, String> {
        let p = param.as_u64().ok_or("hksf param must be an integer")? as u32;
        Ok(HKsf::new(p))
    }
    fn describe(&self) -> Value {
        json!({"inst": self.inst, "param": self.param})
    }
}

impl KsfSpec for opaque_ke::ksf::Identity {
    const KIND: &'static str = "identity";
    fn make(_param: &Value) -> Result<Self, String> {
        Ok(opaque_ke::ksf::Identity)
    }
    fn describe(&self) -> Value {
        json!("identity")
    }
}

impl KsfSpec for argon2::Argon2<'static> {
    const KIND: &'static str = "argon2";
    fn make(param: &Value) -> Result<Self, String> {
        if param.is_null() || param == "default" {
            return Ok(argon2::Argon2::default());
        }
        let m = param["m"].as_u64().ok_or("m")? as u32;
        let t = param["t"].as_u64().ok_or("t")? as u32;
        let p = param["p"].as_u64().ok_or("p")? as u32;
        // "out": an explicitly configured output length (argon2::Params::output_len), absent = None
        let out = param["out"].as_u64().map(|v| v as usize);
        let params = argon2::Params::new(m, t, p, out).map_err(|e| format!("{e}"))?;
        let alg = match param["alg"].as_str().unwrap_or("id") {
            "d" => argon2::Algorithm::Argon2d,
            "i" => argon2::Algorithm::Argon2i,
            _ => argon2::Algorithm::Argon2id,
        };
        let ver = match param["ver"].as_u64().unwrap_or(0x13) {
            0x10 => argon2::Version::V0x10,
            _ => argon2::Version::V0x13,
        };
        match param["secret"].as_str() {
            Some(h) => {
                // the instance borrows its secret: leak it so that the instance can live in the store
                let secret: &'static [u8] = Box::leak(hex::decode(h).map_err(|e| format!("{e}"))?.into_boxed_slice());
                argon2::Argon2::new_with_secret(secret, alg, ver, params).map_err(|e| format!("{e}"))
            }
            None => Ok(argon2::Argon2::new(alg, ver, params)),
        }
    }
    fn describe(&self) -> Value {
        json!("argon2")
    }
    fn reference(&self, input: &[u8], len: usize) -> Option<Result<Vec<u8>, String>> {
        // RFC 9807 section 7 / 10: Argon2id with S = zeroes(16) and T = Nh, straight from the argon2 crate
        let mut out = vec![0u8; len];
        Some(
            self.hash_password_into(input, &[0u8; 16], &mut out)
                .map(|_| out)
                .map_err(|e| format!("{e}")),
        )
    }
}

// ---------------------------------------------------------------------------------------------
// SecretKey
// ---------------------------------------------------------------------------------------------

#[derive(Clone, Copy, Debug, PartialEq, Eq)]
pub struct ExtErr(pub u32);

/// A server static key that lives "behind an interface": every call is logged and the n-th call
/// can be made to fail with a chosen error value.
pub struct ExtKey<G: KeGroup> {
    inner: PrivateKey<G>,
}

impl<G: KeGroup> Clone for ExtKey<G> {
    fn clone(&self) -> Self {
        ExtKey {
            inner: self.inner.clone(),
        }
    }
}

fn ext_gate(op: &str) -> Option<ExtErr> {
    let fail = EXT_FAIL.with(|f| {
        let mut f = f.borrow_mut();
        match *f {
            Some((1, code)) => {
                *f = None;
                Some(ExtErr(code))
            }
            Some((n, code)) => {
                *f = Some((n - 1, code));
                None
            }
            None => None,
        }
    });
    EXT_LOG.with(|l| {
        l.borrow_mut()
            .push(json!({"op": op, "fail": fail.map(|e| e.0)}))
    });
    fail
}

impl<G: KeGroup> SecretKey<G> for ExtKey<G> {
    type Error = ExtErr;
    type Len = G::SkLen;

    fn diffie_hellman(
        &self,
        pk: PublicKey<G>,
    ) -> Result<GenericArray<u8, G::PkLen>, InternalError<Self::Error>> {
        if let Some(e) = ext_gate("diffie_hellman") {
            return Err(InternalError::Custom(e));
        }
        self.inner
            .diffie_hellman(pk)
            .map_err(InternalError::into_custom)
    }

    fn public_key(&self) -> Result<PublicKey<G>, InternalError<Self::Error>> {
        if let Some(e) = ext_gate("public_key") {
            return Err(InternalError::Custom(e));
        }
        self.inner.public_key().map_err(InternalError::into_custom)
    }

    fn serialize(&self) -> GenericArray<u8, Self::Len> {
        let _ = ext_gate_nofail("serialize");
        let mut out = self.inner.serialize();
        if ext_opaque() {
            for b in out.iter_mut() {
                *b ^= 0xA5;
            }
        }
        out
    }

    fn deserialize(input: &[u8]) -> Result<Self, InternalError<Self::Error>> {
        if let Some(e) = ext_gate("deserialize") {
            return Err(InternalError::Custom(e));
        }
        let unwrapped: Vec<u8> = if ext_opaque() {
            input.iter().map(|b| b ^ 0xA5).collect()
        } else {
            input.to_vec()
        };
        let input = unwrapped.as_slice();
        PrivateKey::<G>::deserialize(input)
            .map(|inner| ExtKey { inner })
            .map_err(InternalError::into_custom)
    }
}

fn ext_opaque() -> bool {
    EXT_OPAQUE.with(|b| *b.borrow())
}

fn ext_gate_nofail(op: &str) {
    EXT_LOG.with(|l| l.borrow_mut().push(json!({"op": op, "fail": Value::Null})));
}

impl<G: KeGroup> serde::Serialize for ExtKey<G> {
    fn serialize<S: serde::Serializer>(&self, s: S) -> Result<S::Ok, S::Error> {
        ext_gate_nofail("serde_serialize");
        serde::Serialize::serialize(&self.inner, s)
    }
}

impl<'de, G: KeGroup> serde::Deserialize<'de> for ExtKey<G> {
    fn deserialize<D: serde::Deserializer<'de>>(d: D) -> Result<Self, D::Error> {
        ext_gate_nofail("serde_deserialize");
        <PrivateKey<G> as serde::Deserialize>::deserialize(d).map(|inner| ExtKey { inner })
    }
}

// ---------------------------------------------------------------------------------------------
// SecretKey whose serialized form is a handle of a length unrelated to the group's scalar length
// ---------------------------------------------------------------------------------------------

thread_local! {
    /// the "device" behind HndKey: handle index -> private key bytes
    pub static VAULT: std::cell::RefCell<Vec<Vec<u8>>> = std::cell::RefCell::new(Vec::new());
}

/// Like `ExtKey`, but `SecretKey::Len` is `L`, not the group's `SkLen`: the serialized form is a
/// reference into `VAULT` (little-endian index, then the filler byte 0x5A ^ i at position i).
pub struct HndKey<G: KeGroup, L> {
    inner: PrivateKey<G>,
    _l: PhantomData<L>,
}

impl<G: KeGroup, L> Clone for HndKey<G, L> {
    fn clone(&self) -> Self {
        HndKey {
            inner: self.inner.clone(),
            _l: PhantomData,
        }
    }
}

pub type HndShort = generic_array::typenum::U12;
pub type HndLong = generic_array::typenum::U80;

/// store `raw` in the vault (if new) and return the `len`-byte handle that refers to it
pub fn hnd_handle_for(raw: &[u8], len: usize) -> Vec<u8> {
    let idx = VAULT.with(|v| {
        let mut v = v.borrow_mut();
        match v.iter().position(|k| k.as_slice() == raw) {
            Some(i) => i,
            None => {
                v.push(raw.to_vec());
                v.len() - 1
            }
        }
    }) as u32;
    let le = idx.to_le_bytes();
    (0..len).map(|i| if i < 4 { le[i] } else { hnd_filler(i) }).collect()
}

pub fn hnd_filler(i: usize) -> u8 {
    0x5A ^ (i as u8)
}

impl<G: KeGroup, L: ArrayLength<u8> + 'static> SecretKey<G> for HndKey<G, L> {
    type Error = ExtErr;
    type Len = L;

    fn diffie_hellman(
        &self,
        pk: PublicKey<G>,
    ) -> Result<GenericArray<u8, G::PkLen>, InternalError<Self::Error>> {
        if let Some(e) = ext_gate("diffie_hellman") {
            return Err(InternalError::Custom(e));
        }
        self.inner
            .diffie_hellman(pk)
            .map_err(InternalError::into_custom)
    }

    fn public_key(&self) -> Result<PublicKey<G>, InternalError<Self::Error>> {
        if let Some(e) = ext_gate("public_key") {
            return Err(InternalError::Custom(e));
        }
        self.inner.public_key().map_err(InternalError::into_custom)
    }

    fn serialize(&self) -> GenericArray<u8, Self::Len> {
        ext_gate_nofail("serialize");
        let raw = self.inner.serialize().to_vec();
        GenericArray::clone_from_slice(&hnd_handle_for(&raw, L::USIZE))
    }

    fn deserialize(input: &[u8]) -> Result<Self, InternalError<Self::Error>> {
        if let Some(e) = ext_gate("deserialize") {
            return Err(InternalError::Custom(e));
        }
        if input.len() != L::USIZE {
            return Err(InternalError::SizeError {
                name: "handle",
                len: L::USIZE,
                actual_len: input.len(),
            });
        }
        if input.iter().enumerate().skip(4).any(|(i, b)| *b != hnd_filler(i)) {
            return Err(InternalError::InvalidByteSequence);
        }
        let idx = u32::from_le_bytes([input[0], input[1], input[2], input[3]]) as usize;
        let raw = VAULT
            .with(|v| v.borrow().get(idx).cloned())
            .ok_or(InternalError::InvalidByteSequence)?;
        PrivateKey::<G>::deserialize(&raw)
            .map(|inner| HndKey {
                inner,
                _l: PhantomData,
            })
            .map_err(InternalError::into_custom)
    }
}

impl<G: KeGroup, L> serde::Serialize for HndKey<G, L> {
    fn serialize<S: serde::Serializer>(&self, s: S) -> Result<S::Ok, S::Error> {
        ext_gate_nofail("serde_serialize");
        serde::Serialize::serialize(&self.inner, s)
    }
}

impl<'de, G: KeGroup, L> serde::Deserialize<'de> for HndKey<G, L> {
    fn deserialize<D: serde::Deserializer<'de>>(d: D) -> Result<Self, D::Error> {
        ext_gate_nofail("serde_deserialize");
        <PrivateKey<G> as serde::Deserialize>::deserialize(d).map(|inner| HndKey {
            inner,
            _l: PhantomData,
        })
    }
}

// ---------------------------------------------------------------------------------------------
// KeGroup
// ---------------------------------------------------------------------------------------------

/// Transparent proxy around a key-exchange group that logs what reaches a Diffie-Hellman
/// computation and what the public-key decoder was given.
pub struct MonKe<G>(PhantomData<G>);

fn dh_on() -> bool {
    DH_LOG_ON.with(|b| *b.borrow())
}

impl<G: KeGroup> KeGroup for MonKe<G> {
    type Pk = G::Pk;
    type PkLen = G::PkLen;
    type Sk = G::Sk;
    type SkLen = G::SkLen;

    fn serialize_pk(pk: Self::Pk) -> GenericArray<u8, Self::PkLen> {
        G::serialize_pk(pk)
    }

    fn deserialize_pk(bytes: &[u8]) -> Result<Self::Pk, InternalError> {
        let r = G::deserialize_pk(bytes);
        if dh_on() {
            DH_LOG.with(|l| {
                l.borrow_mut()
                    .push(json!({"op": "de_pk", "in": hex::encode(bytes), "ok": r.is_ok()}))
            });
        }
        r
    }

    fn random_sk<R: RngCore + CryptoRng>(rng: &mut R) -> Self::Sk {
        G::random_sk(rng)
    }

    fn hash_to_scalar<H>(input: &[&[u8]], dst: &[&[u8]]) -> Result<Self::Sk, InternalError>
    where
        H: BlockSizeUser + Default + FixedOutput + HashMarker,
        H::OutputSize: IsLess<U256> + IsLessOrEqual<H::BlockSize>,
    {
        G::hash_to_scalar::<H>(input, dst)
    }

    fn derive_auth_keypair<CS: voprf::CipherSuite>(
        seed: GenericArray<u8, Self::SkLen>,
    ) -> Result<Self::Sk, InternalError>
    where
        <CS::Hash as OutputSizeUser>::OutputSize:
            IsLess<U256> + IsLessOrEqual<<CS::Hash as BlockSizeUser>::BlockSize>,
    {
        G::derive_auth_keypair::<CS>(seed)
    }

    fn is_zero_scalar(scalar: Self::Sk) -> subtle::Choice {
        G::is_zero_scalar(scalar)
    }

    fn public_key(sk: Self::Sk) -> Self::Pk {
        G::public_key(sk)
    }

    fn diffie_hellman(pk: Self::Pk, sk: Self::Sk) -> GenericArray<u8, Self::PkLen> {
        let out = G::diffie_hellman(pk, sk);
        if dh_on() {
            DH_LOG.with(|l| {
                l.borrow_mut().push(json!({
                    "op": "dh", "pk": hex::encode(G::serialize_pk(pk)), "out": hex::encode(&out)
                }))
            });
        }
        out
    }

    fn serialize_sk(sk: Self::Sk) -> GenericArray<u8, Self::SkLen> {
        G::serialize_sk(sk)
    }

    fn deserialize_sk(bytes: &[u8]) -> Result<Self::Sk, InternalError> {
        G::deserialize_sk(bytes)
    }
}
