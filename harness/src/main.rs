//! okv: command interpreter over the real opaque-ke API (production build).
//!
//!   okv <suite>                       commands on stdin, replies on stdout (one JSON per line)
//!   okv <suite> --script F --out G    commands from file F, `call`/reply lines appended to G
//!   okv --list

mod common;
mod proxy;
mod rec;
mod suites;

use std::io::{BufRead, BufReader, Write};

use serde_json::{json, Value};

fn main() {
    let args: Vec<String> = std::env::args().collect();
    if args.len() < 2 {
        eprintln!("usage: okv <suite> [--script F --out G] | --list");
        std::process::exit(2);
    }
    if args[1] == "--list" {
        for s in suites::SUITES {
            println!("{s}");
        }
        return;
    }
    let mut m = match suites::make(&args[1]) {
        Some(m) => m,
        None => {
            eprintln!("unknown suite {}", args[1]);
            std::process::exit(2);
        }
    };
    rec::install_panic_hook();
    let mut script = None;
    let mut outp = None;
    let mut i = 2;
    while i < args.len() {
        match args[i].as_str() {
            "--script" => {
                script = Some(args[i + 1].clone());
                i += 2;
            }
            "--out" => {
                outp = Some(args[i + 1].clone());
                i += 2;
            }
            _ => {
                eprintln!("unknown argument {}", args[i]);
                std::process::exit(2);
            }
        }
    }
    let input: Box<dyn BufRead> = match &script {
        Some(p) => Box::new(BufReader::new(std::fs::File::open(p).expect("open script"))),
        None => Box::new(BufReader::new(std::io::stdin())),
    };
    let mut output: Box<dyn Write> = match &outp {
        Some(p) => Box::new(std::fs::File::create(p).expect("create out")),
        None => Box::new(std::io::stdout()),
    };
    let batch = script.is_some();
    let mut n: u64 = 0;
    for line in input.lines() {
        let line = match line {
            Ok(l) => l,
            Err(_) => break,
        };
        if line.trim().is_empty() {
            continue;
        }
        n += 1;
        let cmd: Value = match serde_json::from_str(&line) {
            Ok(v) => v,
            Err(e) => {
                let _ = writeln!(output, "{}", json!({"ok": false, "harness_error": format!("bad json: {e}")}));
                let _ = output.flush();
                continue;
            }
        };
        if batch {
            // flushed before the API is entered: an abort leaves an open call naming the culprit
            let _ = writeln!(output, "{}", json!({"t": "call", "n": n, "op": cmd["op"]}));
            let _ = output.flush();
        }
        let reply = m.exec_cmd(&cmd);
        let _ = writeln!(output, "{reply}");
        let _ = output.flush();
    }
    if batch {
        let _ = writeln!(output, "{}", json!({"t": "end", "calls": n}));
        let _ = output.flush();
    }
}
