"""C18 - externally held server keys are a transparent abstraction.

Monitor at the SecretKey trait boundary (ExtKey<G> logs every interface call and can fail the
n-th one with a chosen error value):
 (1) equivalence: with equal tapes a setup holding its key behind the interface produces the same
     setup bytes, registration responses, credential responses, pending states and session keys as
     one holding the same key directly, and clients cannot tell them apart; the same for external
     keys whose serialized form is not the scalar (an opaque string of the scalar's length, and
     HndKey handles of 12 and 80 bytes): the stored state is seed || handle || stand-in key, restores
     from its own bytes, and the fresh and the restored server answer like the direct-key server;
 (2) interface discipline: server operations use only public_key / diffie_hellman - never
     serialize - while answering registration and login;
 (3) fault enumeration: for every n up to the number of interface calls the fault-free run made,
     failing the n-th call makes the operation in progress return exactly
     Err(LibraryError(Custom(e))) with the injected e, without panic, response or state.
"""
from . import okv, proto

LEVEL = "fault_enumeration"
RULE = ("per suite and world (default / explicit identities+context / absent password file): direct-key run vs "
        "external-key run on equal tapes (external key = same-length scalar, opaque same-length string, 12-byte handle, 80-byte handle; "
        "fresh and restored from the stored state), then fail-at-n for every n in 1..calls for KeyPair::from_private_key_slice + "
        "ServerSetup::new_with_key, ServerSetup::deserialize, ServerRegistration::start, ServerLogin::start; "
        "non-trivial = an operation executed with an external key (compared with the direct run or with an injected "
        "fault); distinct = distinct (suite, world, operation, n)")
ASSUMPTIONS = ["the number of public_key calls is not prescribed (a cached public key is observationally identical); only serialize "
               "during protocol operations and a DH not taken through the interface are discipline violations",
               "fail-at-n is exhaustive over the calls the fault-free run made"]
EXHAUSTIVE = {"quick": "every n in 1..(interface calls of the fault-free run) for each of the 4 server operations, per world",
              "thorough": "every n in 1..(interface calls of the fault-free run) for each of the 4 server operations, per world"}


def jobs(tier, seed):
    return [{"suite": su, "seed": seed, "tier": tier, "cost": okv.suite_cost(su)} for su in okv.SUITES20]


def run_job(job):
    su, tier = job["suite"], job["tier"]
    rnd = proto.pyrng("c18", su, job["seed"])
    viol, samples = [], []
    stats = {"equivalence_worlds": 0, "compared_values": 0, "ext_calls": {}, "fault_points": 0, "faults_returned": 0, "ops_with_ext": 0, "variants": {}}
    evals = 0
    bx = bytes.fromhex

    def V(sig, what):
        viol.append({"sig": "C18 " + sig, "what": "%s: %s" % (su, what)})

    def note_calls(op, r):
        for c in r.get("ext", []):
            k = "%s:%s" % (op, c["op"])
            stats["ext_calls"][k] = stats["ext_calls"].get(k, 0) + 1

    with okv.Session(su) as s:
        sz = s.sz
        worlds = [(None, None, None, False), (b"alice", b"the-server", b"ctx", False), (None, b"srv", None, True)]
        nrep = 1 if tier == "quick" else 30
        for rep in range(nrep):
            for wi, (idu, ids, ctx, fake) in enumerate(worlds):
                wseed = proto.H("c18", su, job["seed"], wi, rep)
                # a key to hold behind the interface
                k = s.cmd("g_derive", seed=proto.H("key", su, wi, rep)[:1] * sz.nsk if False else (proto.H("key", su, wi, rep) * 3)[:sz.nsk])
                sk = bx(k.sk)
                runs = {}
                for ext in (False, True):
                    rng = s.rng("r", wseed)
                    tag = "X" if ext else "D"
                    st = s.cmd("setup_new_with_key", rng=rng, sk=sk, ext=ext, out=tag + "S")
                    evals += 1
                    if st.failed:
                        V("setup_new_with_key failed", str(dict(st)))
                        break
                    if ext:
                        note_calls("new_with_key", st)
                    rec = [("setup", st.ser), ("setup_pk", st.pk)]
                    a = s.cmd("creg_start", rng=rng, pw=b"pw", out_state=tag + "cs", out_msg=tag + "rq")
                    b = s.cmd("sreg_start", setup=tag + "S", req=tag + "rq", cred=b"id", out=tag + "rr")
                    c = s.cmd("creg_finish", rng=rng, state=tag + "cs", pw=b"pw", resp=tag + "rr", id_u=idu, id_s=ids, out=tag + "up")
                    d = s.cmd("sreg_finish", upload=tag + "up", out=tag + "file")
                    e = s.cmd("clogin_start", rng=rng, pw=b"pw", out_state=tag + "cl", out_msg=tag + "cq")
                    f = s.cmd("slogin_start", rng=rng, setup=tag + "S", file=None if fake else tag + "file", req=tag + "cq", cred=b"id", ctx=ctx, id_u=idu, id_s=ids,
                              out_state=tag + "sl", out_msg=tag + "cr")
                    g = s.cmd("clogin_finish", state=tag + "cl", pw=b"pw", resp=tag + "cr", ctx=ctx, id_u=idu, id_s=ids, out=tag + "cf")
                    evals += 7
                    for nm, r in (("sreg_start", b), ("slogin_start", f)):
                        if r.failed:
                            V("%s failed with %s key" % (nm, "an external" if ext else "a direct"), str(dict(r)))
                        if ext:
                            stats["ops_with_ext"] += 1
                            note_calls(nm, r)
                            ops_seen = [x["op"] for x in r.get("ext", [])]
                            if any(o in ("serialize", "serde_serialize") for o in ops_seen):
                                V("%s extracted the raw key through serialize()" % nm, str(ops_seen))
                            if nm == "slogin_start" and "diffie_hellman" not in ops_seen:
                                V("ServerLogin::start did not take the static Diffie-Hellman through the interface", str(ops_seen))
                    rec += [("reg_response", b.get("msg")), ("upload", c.get("msg")), ("export_key", c.get("export_key")), ("server_s_pk", c.get("server_s_pk")),
                            ("KE2", f.get("msg")), ("server_state", f.get("state"))]
                    if fake:
                        rec.append(("client_outcome", g.get("err")))
                    else:
                        if g.failed:
                            V("client cannot log in to a server with %s key" % ("an external" if ext else "a direct"), str(dict(g)))
                        else:
                            h = s.cmd("slogin_finish", state=tag + "sl", fin=tag + "cf")
                            evals += 1
                            rec += [("KE3", g.msg), ("session_key_c", g.session_key), ("session_key_s", h.get("session_key"))]
                    # persistence of the external-key setup through its native encoding
                    if ext:
                        rl = s.de("setupx", bx(st.ser), out="XS2")
                        note_calls("deserialize", rl)
                        rec.append(("setup_reloaded", rl.get("re")))
                    else:
                        rl = s.de("setup", bx(st.ser), out="DS2")
                        rec.append(("setup_reloaded", rl.get("re")))
                    runs[ext] = rec
                # (1b) the same with external keys whose serialized form is NOT the raw scalar: an opaque string of the scalar's
                # length, and handles of SecretKey::Len = 12 and 80 bytes (shorter / longer than every group's scalar).
                # Anything the library computes from serialize() instead of the interface's operations, or any place where it
                # assumes SecretKey::Len == SkLen, shows up here
                if len(runs) == 2:
                    want = dict(runs[False])
                    dser = bx(want["setup"])
                    for variant, kind, hlen in (("opaque", "setupx", sz.nsk), ("handle-short", "setuphs", 12), ("handle-long", "setuphl", 80)):
                        if variant == "opaque":
                            s.cmd("ext_opaque", on=True)
                            mk = dict(sk=bytes(b ^ 0xA5 for b in sk), ext=True)
                        else:
                            mk = dict(sk=sk, hnd=variant.split("-")[1])
                        rng = s.rng("r", wseed)
                        ost = s.cmd("setup_new_with_key", rng=rng, out="OS", **mk)
                        evals += 1
                        stats["variants"][variant] = stats["variants"].get(variant, 0) + 1
                        if ost.failed:
                            V("an external key with an %s serialized form cannot be used (library interprets serialize() output)" % variant,
                              str(dict((k, v) for k, v in ost.items() if k in ("err", "panic"))))
                        else:
                            # stored state: seed || S::serialize() || stand-in key, the outer fields equal to the direct-key server's
                            oser = bx(ost.ser)
                            stats["compared_values"] += 1
                            if len(oser) != sz.nh + hlen + sz.nsk:
                                V("stored state of a server with an %s external key has the wrong length" % variant, "world %d: %d bytes, want %d+%d+%d" % (wi, len(oser), sz.nh, hlen, sz.nsk))
                            elif oser[:sz.nh] != dser[:sz.nh] or oser[sz.nh + hlen:] != dser[sz.nh + sz.nsk:]:
                                V("stored state of a server with an %s external key differs from the direct-key server outside the key field" % variant,
                                  "world %d: direct %s external %s" % (wi, dser.hex(), oser.hex()))
                            elif variant != "opaque" and any(oser[sz.nh + i] != (0x5A ^ i) for i in range(4, hlen)):
                                V("stored state of a server with an %s external key does not contain the key's own serialized form" % variant,
                                  "world %d: key field %s" % (wi, oser[sz.nh:sz.nh + hlen].hex()))
                            # restore from its own bytes and answer registration + login with the restored setup
                            orl = s.de(kind, oser, out="OS2")
                            evals += 1
                            if not orl.ok:
                                V("a setup holding an %s external key does not restore from its own bytes" % variant, "world %d: %s" % (wi, orl.get("err") or orl.get("panic")))
                            elif orl.get("re") != ost.ser:
                                V("a setup holding an %s external key re-encodes differently after a restore" % variant, "world %d: %s vs %s" % (wi, ost.ser, orl.get("re")))
                            for srv in ("OS", "OS2") if orl.ok else ("OS",):
                                rng = s.rng("r", wseed)
                                s.cmd("setup_new_with_key", rng=rng, out="Odummy", **mk)
                                a = s.cmd("creg_start", rng=rng, pw=b"pw", out_state="Ocs", out_msg="Orq")
                                b = s.cmd("sreg_start", setup=srv, req="Orq", cred=b"id", out="Orr")
                                c = s.cmd("creg_finish", rng=rng, state="Ocs", pw=b"pw", resp="Orr", id_u=idu, id_s=ids, out="Oup")
                                d = s.cmd("sreg_finish", upload="Oup", out="Ofile")
                                e = s.cmd("clogin_start", rng=rng, pw=b"pw", out_state="Ocl", out_msg="Ocq")
                                f = s.cmd("slogin_start", rng=rng, setup=srv, file=None if fake else "Ofile", req="Ocq", cred=b"id", ctx=ctx, id_u=idu, id_s=ids,
                                          out_state="Osl", out_msg="Ocr")
                                evals += 7
                                got = [("setup_pk", ost.pk), ("reg_response", b.get("msg")), ("upload", c.get("msg")), ("export_key", c.get("export_key")),
                                       ("server_s_pk", c.get("server_s_pk")), ("KE2", f.get("msg")), ("server_state", f.get("state"))]
                                for n_, v_ in got:
                                    stats["compared_values"] += 1
                                    if v_ != want[n_]:
                                        V("server with an %s external key (%s) differs from the direct-key server in %s" % (variant, "restored from bytes" if srv == "OS2" else "fresh", n_),
                                          "world %d: direct %s external %s" % (wi, str(want[n_])[:160], str(v_)[:160]))
                        if variant == "opaque":
                            s.cmd("ext_opaque", on=False)
                if len(runs) == 2:
                    stats["equivalence_worlds"] += 1
                    for (n1, v1), (n2, v2) in zip(runs[False], runs[True]):
                        stats["compared_values"] += 1
                        if v1 != v2:
                            V("external-key server differs from direct-key server in %s" % n1, "world %d: direct %s external %s" % (wi, str(v1)[:160], str(v2)[:160]))
                    if len(samples) < 1:
                        samples.append({"suite": su, "world": wi, "compared": [n for n, _ in runs[True]], "all_equal": runs[True] == runs[False]})
                # ---------------------------------------------------------------- fault enumeration
                def failable(r):
                    # calls through which the interface can report an error (serialize cannot)
                    return sum(1 for c in r.get("ext", []) if c["op"] in ("deserialize", "public_key", "diffie_hellman"))

                def enum(opname, runner, ncalls):
                    nonlocal evals
                    for n in range(1, ncalls + 1):
                        code = 1000 + rnd.randrange(100000)
                        s.cmd("ext_fail", at=n, code=code)
                        r = runner()
                        s.cmd("ext_fail", at=None)
                        evals += 1
                        stats["fault_points"] += 1
                        case = "%s, external key fails at its call %d of %d (world %d)" % (opname, n, ncalls, wi)
                        if r.get("panic") or r.get("died"):
                            V("%s panicked on an external-key failure" % opname, "%s: %s" % (case, r.get("panic") or "process died"))
                        elif r.ok:
                            V("%s succeeded although the external key failed" % opname, case)
                        elif r.err != "LibraryError/Custom(%d)" % code:
                            V("%s returned %s instead of the injected external-key error" % (opname, r.err.split("(")[0]), "%s: got %s want LibraryError/Custom(%d)" % (case, r.err, code))
                        else:
                            stats["faults_returned"] += 1
                        if any(k in r for k in ("msg", "state", "ser")):
                            V("%s emitted output despite the external-key failure" % opname, case)

                rng = s.rng("f", wseed)
                base = s.cmd("setup_new_with_key", rng=rng, sk=sk, ext=True, out="FS")
                n0 = failable(base)
                if n0 < 1:
                    V("from_private_key_slice/new_with_key made no interface call", str(base.get("ext")))
                enum("KeyPair::from_private_key_slice + ServerSetup::new_with_key", lambda: s.cmd("setup_new_with_key", rng=rng, sk=sk, ext=True, out="FS_"), n0)
                b0 = s.de("setupx", bx(base.ser), out="FS2")
                enum("ServerSetup::deserialize", lambda: s.de("setupx", bx(base.ser), out="FS2_"), failable(b0))
                # the same two operations with a handle-style key (its deserialize goes through the vault)
                hb = s.cmd("setup_new_with_key", rng=s.rng("fh", wseed), sk=sk, hnd="long", out="FH")
                enum("KeyPair::from_private_key_slice + ServerSetup::new_with_key (handle key)",
                     lambda: s.cmd("setup_new_with_key", rng="fh", sk=sk, hnd="long", out="FH_"), failable(hb))
                if hb.ok:
                    hb0 = s.de("setuphl", bx(hb.ser), out="FH2")
                    enum("ServerSetup::deserialize (handle key)", lambda: s.de("setuphl", bx(hb.ser), out="FH2_"), failable(hb0))
                s.cmd("creg_start", rng=rng, pw=b"pw", out_state="Fcs", out_msg="Frq")
                r0 = s.cmd("sreg_start", setup="FS", req="Frq", cred=b"id", out="Frr")
                enum("ServerRegistration::start", lambda: s.cmd("sreg_start", setup="FS", req="Frq", cred=b"id", out="Frr_"), failable(r0))
                s.cmd("creg_finish", rng=rng, state="Fcs", pw=b"pw", resp="Frr", id_u=idu, id_s=ids, out="Fup")
                s.cmd("sreg_finish", upload="Fup", out="Ffile")
                s.cmd("clogin_start", rng=rng, pw=b"pw", out_state="Fcl", out_msg="Fcq")
                l0 = s.cmd("slogin_start", rng=rng, setup="FS", file=None if fake else "Ffile", req="Fcq", cred=b"id", ctx=ctx, id_u=idu, id_s=ids, out_state="Fsl", out_msg="Fcr")
                if failable(l0) < 1:
                    V("ServerLogin::start made no interface call", "")
                enum("ServerLogin::start", lambda: s.cmd("slogin_start", rng=rng, setup="FS", file=None if fake else "Ffile", req="Fcq", cred=b"id", ctx=ctx, id_u=idu,
                                                         id_s=ids, out_state="Fsl_", out_msg="Fcr_"), failable(l0))
                # after the faults are cleared the same operation works again (the injected fault left no residue)
                l1 = s.cmd("slogin_start", rng=rng, setup="FS", file=None if fake else "Ffile", req="Fcq", cred=b"id", ctx=ctx, id_u=idu, id_s=ids, out_state="Fsl", out_msg="Fcr")
                evals += 12
                if l1.failed:
                    V("control: operation fails after the injected fault was cleared", str(dict(l1)))
                s.cmd("clear")
    stats["suites"] = {su: stats["fault_points"]}
    return {"evals": evals, "nontrivial": stats["fault_points"] + stats["ops_with_ext"], "samples": samples, "violations": viol, "inconclusive": [], "stats": stats}


def floors(tier, stats, results):
    out = []
    missing = [x for x in okv.SUITES20 if stats.get("suites", {}).get(x, 0) < 12]
    if missing:
        out.append("fewer than 12 fault points for suites %s" % missing)
    if stats.get("equivalence_worlds", 0) < 60:
        out.append("fewer than 3 equivalence worlds per suite")
    for variant in ("opaque", "handle-short", "handle-long"):
        if stats.get("variants", {}).get(variant, 0) < 60:
            out.append("external key variant %s exercised in fewer than 3 worlds per suite" % variant)
    return out
