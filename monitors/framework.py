"""Check driver: build flavours, job scheduler with watchdog, evidence, known findings, replay.

Verdicts are three-valued:
  exit 0  held on everything observed (KNOWN-FINDING lines possible)
  exit 1  at least one `VIOLATION property=<id> replay=<path>` line
  exit 2  INCONCLUSIVE (build failure, harness error, watchdog, floors not met) - never a VIOLATION
"""
import importlib
import json
import multiprocessing as mp
import os
import shutil
import subprocess
import sys
import time
import traceback

from . import okv

VERIF = okv.VERIF
HARNESS = okv.HARNESS
RUN_DIR = os.path.join(VERIF, "run")
REPLAY_DIR = os.path.join(VERIF, "replays")
EVID_DIR = os.path.join(VERIF, "evidence")
NCPU = int(os.environ.get("VERIF_JOBS", "16"))


# ------------------------------------------------------------------------------------- builds

def cargo_env(extra=None):
    env = dict(os.environ)
    env["CARGO_NET_OFFLINE"] = "true"
    env.pop("RUSTFLAGS", None)
    if extra:
        env.update(extra)
    return env


def ensure_build(flavour="release"):
    """(Re)builds the harness against /repo's current working tree. Returns (ok, log)."""
    t0 = time.time()
    if flavour == "release":
        cmd = ["cargo", "build", "--release", "--offline"]
        env = cargo_env()
    elif flavour == "ovf":
        cmd = ["cargo", "build", "--release", "--offline", "--target-dir", "target-ovf"]
        env = cargo_env({"RUSTFLAGS": "-Coverflow-checks=on -Cdebug-assertions=on"})
    elif flavour == "asan":
        cmd = ["cargo", "+nightly", "build", "--release", "--offline", "--target-dir", "target-asan",
               "--target", "x86_64-unknown-linux-gnu"]
        env = cargo_env({"RUSTFLAGS": "-Zsanitizer=address -Cforce-frame-pointers=yes"})
    else:
        raise ValueError(flavour)
    p = subprocess.run(cmd, cwd=HARNESS, env=env, capture_output=True, text=True)
    ok = p.returncode == 0 and os.path.exists(okv.binary(flavour))
    return ok, (p.stdout + p.stderr)[-6000:], time.time() - t0


# ------------------------------------------------------------------------------------- scheduler

def _worker(modname, job, outpath):
    try:
        mod = importlib.import_module(modname)
        res = mod.run_job(job)
        res["job"] = job
    except okv.HarnessError as e:
        res = {"job": job, "evals": 0, "nontrivial": 0, "samples": [], "violations": [],
               "inconclusive": ["harness error: %s" % e], "stats": {}}
    except Exception:
        res = {"job": job, "evals": 0, "nontrivial": 0, "samples": [], "violations": [],
               "inconclusive": ["exception in monitor: " + traceback.format_exc()[-3000:]], "stats": {}}
    tmp = outpath + ".tmp"
    with open(tmp, "w") as f:
        json.dump(res, f)
    os.replace(tmp, outpath)


def run_jobs(modname, jobs, timeout_s):
    """Runs jobs in separate processes, NCPU at a time, heaviest first; kills a job at its watchdog."""
    os.makedirs(RUN_DIR, exist_ok=True)
    tag = "%s-%d" % (modname.split(".")[-1], os.getpid())
    d = os.path.join(RUN_DIR, tag)
    shutil.rmtree(d, ignore_errors=True)
    os.makedirs(d)
    order = sorted(range(len(jobs)), key=lambda i: -jobs[i].get("cost", 1))
    pending = list(order)
    running = {}
    results = [None] * len(jobs)
    ctx = mp.get_context("fork")
    while pending or running:
        while pending and len(running) < NCPU:
            i = pending.pop(0)
            outp = os.path.join(d, "job%d.json" % i)
            p = ctx.Process(target=_worker, args=(modname, jobs[i], outp))
            p.start()
            running[i] = (p, time.time(), outp)
        time.sleep(0.02)
        for i in list(running):
            p, t0, outp = running[i]
            if not p.is_alive():
                p.join()
                if os.path.exists(outp):
                    with open(outp) as f:
                        results[i] = json.load(f)
                else:
                    results[i] = {"job": jobs[i], "evals": 0, "nontrivial": 0, "samples": [], "violations": [],
                                  "inconclusive": ["monitor process died (exit %s)" % p.exitcode], "stats": {}}
                del running[i]
            elif time.time() - t0 > jobs[i].get("timeout", timeout_s):
                p.kill()
                p.join()
                results[i] = {"job": jobs[i], "evals": 0, "nontrivial": 0, "samples": [], "violations": [],
                              "inconclusive": ["watchdog: job exceeded %ds wall clock" % jobs[i].get("timeout", timeout_s)],
                              "stats": {}}
                del running[i]
    shutil.rmtree(d, ignore_errors=True)
    return results


def merge_stats(a, b):
    for k, v in b.items():
        if isinstance(v, dict):
            a[k] = merge_stats(a.get(k, {}), v)
        elif isinstance(v, (int, float)) and not isinstance(v, bool):
            a[k] = a.get(k, 0) + v
        elif isinstance(v, list):
            a[k] = (a.get(k, []) + v)[:40]
        else:
            a[k] = v
    return a


# ------------------------------------------------------------------------------------- findings

def load_known():
    p = os.path.join(VERIF, "known_findings.json")
    if not os.path.exists(p):
        return {"findings": [], "fixed": []}
    with open(p) as f:
        return json.load(f)


def main(argv=None):
    argv = list(sys.argv[1:] if argv is None else argv)
    if not argv:
        print("usage: check <Cnn> <quick|thorough> [--replay FILE]")
        return 2
    prop = argv[0]
    tier = os.environ.get("VERIF_TIER", "quick")
    replay = None
    rest = argv[1:]
    while rest:
        a = rest.pop(0)
        if a in ("quick", "thorough"):
            tier = a
        elif a == "--replay":
            replay = rest.pop(0)
    seed = int(os.environ.get("VERIF_SEED", "1"))
    modname = "monitors.%s" % prop.lower()
    mod = importlib.import_module(modname)
    t0 = time.time()
    inconclusive = []
    flavours = getattr(mod, "FLAVOURS", {"quick": ["release"], "thorough": ["release"]})[tier]
    build_s = {}
    for fl in flavours:
        ok, log, dt = ensure_build(fl)
        build_s[fl] = round(dt, 1)
        if not ok:
            print(log)
            print("INCONCLUSIVE: property=%s build of flavour %s failed" % (prop, fl))
            return 2
    if hasattr(mod, "prepare"):
        pre = mod.prepare(tier, seed)
        if pre:
            inconclusive += pre
    if replay:
        with open(replay) as f:
            rp = json.load(f)
        jobs = [rp["job"]]
    else:
        jobs = mod.jobs(tier, seed)
    results = run_jobs(modname, jobs, getattr(mod, "JOB_TIMEOUT", {"quick": 900, "thorough": 7200})[tier])
    evals = 0
    nontriv = 0
    samples = []
    stats = {}
    violations = []
    for r in results:
        evals += r.get("evals", 0)
        nontriv += r.get("nontrivial", 0)
        for s in r.get("samples", []):
            if len(samples) < 12:
                samples.append(s)
        merge_stats(stats, r.get("stats", {}))
        for v in r.get("violations", []):
            v["job"] = r["job"]
            violations.append(v)
        for m in r.get("inconclusive", []):
            inconclusive.append("%s: %s" % (r["job"].get("suite", "?"), m))
    if hasattr(mod, "floors") and not replay:
        inconclusive += mod.floors(tier, stats, results) or []
    known = load_known()
    ksig = {(k["property"], k["sig"]): k for k in known.get("findings", [])}
    new_v = []
    known_hit = {}
    for v in violations:
        k = ksig.get((prop, v.get("sig")))
        if k:
            known_hit.setdefault(v["sig"], k)
        else:
            new_v.append(v)
    for sig, k in sorted(known_hit.items()):
        print("KNOWN-FINDING: property=%s %s" % (prop, k["what"]))
    os.makedirs(REPLAY_DIR, exist_ok=True)
    seen_sig = set()
    nrep = 0
    for v in new_v:
        sig = v.get("sig")
        if sig in seen_sig and nrep >= 5:
            continue
        seen_sig.add(sig)
        nrep += 1
        if nrep > 25:
            break
        path = os.path.join(REPLAY_DIR, "%s-%s-s%d-%d.json" % (prop, tier, seed, nrep))
        with open(path, "w") as f:
            json.dump({"property": prop, "tier": tier, "seed": seed, "job": v["job"], "violation": v}, f, indent=1)
        print("VIOLATION property=%s replay=%s" % (prop, path))
        print("  what: %s" % str(v.get("what"))[:600])
    wall = time.time() - t0
    if not replay:
        cov = {
            "evaluations": int(evals),
            "distinct_nontrivial": int(nontriv),
            "rule": getattr(mod, "RULE", ""),
            "samples": samples,
            "jobs": len(jobs),
            "observed": stats,
            "build_s": build_s,
            "known_findings_seen": sorted(known_hit),
            "inconclusive": inconclusive[:20],
        }
        if getattr(mod, "EXHAUSTIVE", {}).get(tier):
            cov["exhaustive"] = True
            cov["exhaustive_over"] = mod.EXHAUSTIVE[tier]
        ev = {
            "property_id": prop,
            "tier": tier,
            "seed": seed,
            "level": getattr(mod, "LEVEL", "exploration"),
            "coverage": cov,
            "assumptions": getattr(mod, "ASSUMPTIONS", []),
            "wall_s": round(wall, 2),
            "violations": len(new_v),
        }
        os.makedirs(EVID_DIR, exist_ok=True)
        with open(os.path.join(EVID_DIR, "%s.json" % prop), "w") as f:
            json.dump(ev, f, indent=1)
    print("%s %s seed=%d: %d evaluations, %d distinct non-trivial, %d jobs, %.1fs; violations=%d known=%d" % (
        prop, tier, seed, evals, nontriv, len(jobs), wall, len(new_v), len(known_hit)))
    if new_v:
        return 1
    if inconclusive:
        for m in inconclusive[:20]:
            print("INCONCLUSIVE: property=%s %s" % (prop, m[:1500]))
        return 2
    return 0
