"""C15 - the key-stretching function is applied once and bound into every secret.

Monitor at the Ksf trait boundary (harness-defined HKsf logs every call with its instance,
parameter and input): exactly one call per client finish, none elsewhere; the instance called is
the one passed, or a Default instance when none is passed; the input is the OPRF output (model);
login succeeds iff the effective parameters at registration and login are equal; every
password-derived secret differs between parameterisations; a failing KSF surfaces as KsfError.
"""
from . import okv, proto
from .refmodel import selftest
from .refmodel.opaque import Opaque

LEVEL = "exploration"
RULE = ("per suite: the 4x4 matrix (registration KSF, login KSF) over {absent, explicit default, identity-parameter, "
        "3-round parameter} x several passwords; KSF failure injected at the n-th call for n = 1..2 in registration and "
        "login; on 4 suites the same matrix with the real Argon2 adapter (default, explicit default, cheap explicit); "
        "non-trivial = a finish call whose KSF log was inspected; distinct = distinct (suite, password, pair, fault)")
ASSUMPTIONS = ["KSF observation is exact: the harness KSF is the suite's Ksf type, so every call the library makes is logged",
               "Argon2 itself is trusted (not modelled); only the adapter's wiring is observed"]


def jobs(tier, seed):
    out = [{"suite": su, "seed": seed, "tier": tier, "cost": okv.suite_cost(su)} for su in okv.SUITES20]
    out += [{"suite": su, "seed": seed, "tier": tier, "cost": 300, "argon": True} for su in okv.ARGON_SUITES]
    return out


def run_job(job):
    if job.get("argon"):
        return run_argon(job)
    ok, detail = selftest.run()
    if not ok:
        return {"evals": 0, "nontrivial": 0, "samples": [], "violations": [], "inconclusive": [detail], "stats": {}}
    su, tier = job["suite"], job["tier"]
    sz = okv.Sizes(su)
    m = Opaque(sz.oprf, sz.ke)
    viol, samples = [], []
    stats = {"finish_calls": 0, "ksf_calls": 0, "non_finish_ops": 0, "pairs": 0, "faults": 0, "secrets_differ": 0, "combos": {}}
    evals = 0
    bx = bytes.fromhex

    def V(sig, what):
        viol.append({"sig": "C15 " + sig, "what": "%s: %s" % (su, what)})

    with okv.Session(su) as s:
        insts = {}
        for nm, p in (("k1", 1), ("k0", 0), ("k3", 3), ("k1b", 1)):
            insts[nm] = (s.cmd("ksf_new", id=nm, param=p).desc["inst"], p)
        modes = [None, "k1", "k0", "k3"]
        eff = {None: okv.HKSF_DEFAULT_PARAM, "k1": 1, "k0": 0, "k3": 3, "k1b": 1}

        def check_log(r, mode, op, pw_oprf_out=None):
            """exactly one call, right instance, right input"""
            log = r.get("ksf", [])
            stats["finish_calls"] += 1
            stats["ksf_calls"] += len(log)
            if len(log) != 1:
                V("KSF called %d times in %s" % (len(log), op), "mode %s log %s" % (mode, log))
                return
            c = log[0]
            if mode is None:
                if not c["default"] or c["param"] != okv.HKSF_DEFAULT_PARAM:
                    V("absent KSF did not use a Default instance", "%s: %s" % (op, c))
            else:
                if c["default"] or c["inst"] != insts[mode][0] or c["param"] != insts[mode][1]:
                    V("KSF instance called is not the one passed", "%s: passed %s (inst %d) called %s" % (op, mode, insts[mode][0], c))
            if c["len"] != sz.nh:
                V("KSF output length is not Nh", str(c))
            if pw_oprf_out is not None and bx(c["in"]) != pw_oprf_out:
                V("KSF input is not the OPRF output", "%s: got %s want %s" % (op, c["in"], pw_oprf_out.hex()))

        def no_ksf(r, op):
            stats["non_finish_ops"] += 1
            if r.get("ksf"):
                V("KSF called in %s" % op, str(r["ksf"]))

        pws = [b"pw", b"", b"\xff" * 40] if tier == "quick" else [b"pw", b"", b"\xff" * 40, b"x" * 65535, b"\x00", b"caf\xc3\xa9"]
        for pi, pw in enumerate(pws):
            wseed = proto.H("c15", su, job["seed"], pi)
            uploads = {}
            for rm in modes:
                rng = s.rng("r", wseed)        # same tapes for every registration mode
                st = s.cmd("setup_new", rng=rng, out="S")
                a = s.cmd("creg_start", rng=rng, pw=pw, out_state="g.cs", out_msg="g.rq")
                b = s.cmd("sreg_start", setup="S", req="g.rq", cred=b"id", out="g.rr")
                vias = ["new", "clone", "literal", "default"]
                # identities and context vary with the pair, so that every way of building the parameter structs is seen together
                # with an explicit instance AND non-default identities / a non-empty context
                idu, ids = [(None, None), (b"alice", None), (None, b"srv"), (b"alice", b"srv")][(pi + 1) % 4]   # one setting per password world: the uploads of one world are compared with each other below
                c = s.cmd("creg_finish", rng=rng, state="g.cs", pw=pw, resp="g.rr", ksf=rm, out="g.up", id_u=idu, id_s=ids, params_via=vias[(pi + modes.index(rm)) % 4])
                d = s.cmd("sreg_finish", upload="g.up", out="g.file")
                evals += 5
                for r_, op in ((st, "ServerSetup::new"), (a, "ClientRegistration::start"), (b, "ServerRegistration::start"), (d, "ServerRegistration::finish")):
                    no_ksf(r_, op)
                if c.failed:
                    V("control: registration failed", str(dict(c)))
                    continue
                blind = m.oprf.G.decode_scalar(bx(a.state)[:sz.ns])
                oprf_out = m.oprf.finalize(pw, blind, m.oprf.G.decode_elem(bx(b.msg)[:sz.noe]))
                check_log(c, rm, "ClientRegistration::finish(%s)" % rm, oprf_out)
                uploads[rm] = (c.msg, c.export_key)
                # model: the KSF result feeds every secret
                want, want_export, _ = m.registration_upload(pw, blind, bx(b.msg), bx(c.msg)[sz.npk + sz.nh:sz.npk + sz.nh + 32], idu, ids, lambda x, p=eff[rm]: okv.hksf(p, x))
                if want != bx(c.msg) or want_export != bx(c.export_key):
                    V("upload/export key are not the specification's function of the stretched OPRF output", "registration mode %s" % rm)
                for lm in modes + ["k1b"]:
                    e = s.cmd("clogin_start", rng=rng, pw=pw, out_state="l.cl", out_msg="l.cq")
                    ctx = [None, b"", b"ctx", b"x" * 300][(stats["pairs"] // 4) % 4]
                    f = s.cmd("slogin_start", rng=rng, setup="S", file="g.file", req="l.cq", cred=b"id", ctx=ctx, id_u=idu, id_s=ids, out_state="l.sl", out_msg="l.cr")
                    g = s.cmd("clogin_finish", state="l.cl", pw=pw, resp="l.cr", ksf=lm, ctx=ctx, id_u=idu, id_s=ids, out="l.cf", params_via=vias[(stats["pairs"]) % 4])
                    evals += 3
                    combo = "%s/%s/%s" % (vias[stats["pairs"] % 4], "ksf" if lm else "noksf", "ctx" if ctx else "noctx")
                    stats["combos"][combo] = stats["combos"].get(combo, 0) + 1
                    no_ksf(e, "ClientLogin::start")
                    no_ksf(f, "ServerLogin::start")
                    check_log(g, lm, "ClientLogin::finish(%s)" % lm)
                    stats["pairs"] += 1
                    expect = eff[rm] == eff[lm]
                    case = {"registration_ksf": rm, "login_ksf": lm, "effective": [eff[rm], eff[lm]], "pw": proto.short(pw)}
                    if g.ok != expect:
                        V("login under (registration %s, login %s) KSF %s" % (rm, lm, "succeeded" if g.ok else "failed"), "%s: %s" % (case, g.get("err")))
                    elif g.ok:
                        h = s.cmd("slogin_finish", state="l.sl", fin="l.cf")
                        evals += 1
                        no_ksf(h, "ServerLogin::finish")
                        if not h.ok or h.session_key != g.session_key or g.export_key != c.export_key:
                            V("matching KSF parameters: keys disagree", str(case))
                    elif g.err != "InvalidLoginError":
                        V("mismatching KSF parameters: error %s" % g.err, str(case))
                    if len(samples) < 1 and not expect:
                        samples.append(dict(case, suite=su, outcome=g.get("err"), ksf_log=g.get("ksf")))
            # every password-derived secret differs between parameterisations (same tapes)
            seen = {}
            for rm, (upl, exp) in uploads.items():
                u = bx(upl)
                parts = (u[:sz.npk], u[sz.npk:sz.npk + sz.nh], u[sz.npk + sz.nh + 32:], bx(exp))
                seen.setdefault(eff[rm], []).append(parts)
            effs = sorted(seen)
            for i in range(len(effs)):
                lst = seen[effs[i]]
                if any(x != lst[0] for x in lst):
                    V("explicit default KSF is not equivalent to absent", "param %d" % effs[i])
                for j in range(i + 1, len(effs)):
                    for k, nm in enumerate(("client public key", "masking key", "envelope tag", "export key")):
                        stats["secrets_differ"] += 1
                        if seen[effs[i]][0][k] == seen[effs[j]][0][k]:
                            V("%s does not depend on the KSF parameter" % nm, "params %d vs %d, pw %s" % (effs[i], effs[j], proto.short(pw)))
            # fault injection: the n-th KSF call fails
            for mode in (None, "k3"):
                for at in (1, 2):
                    rng = s.rng("r", wseed)
                    s.cmd("setup_new", rng=rng, out="S")
                    s.cmd("creg_start", rng=rng, pw=pw, out_state="g.cs", out_msg="g.rq")
                    s.cmd("sreg_start", setup="S", req="g.rq", cred=b"id", out="g.rr")
                    s.cmd("ksf_fail", at=at)
                    c = s.cmd("creg_finish", rng=rng, state="g.cs", pw=pw, resp="g.rr", ksf=mode, out="g.up")
                    evals += 4
                    stats["faults"] += 1
                    if at == 1:
                        if c.ok or c.get("err") != "LibraryError/KsfError":
                            V("KSF failure at registration not returned as KsfError", "%s" % dict((k, v) for k, v in c.items() if k in ("ok", "err", "panic")))
                        c = s.cmd("creg_finish", rng=rng, state="g.cs", pw=pw, resp="g.rr", ksf=mode, out="g.up")
                    else:
                        if not c.ok:
                            V("control: registration failed though the fault is scheduled for the 2nd call", str(dict(c)))
                            s.cmd("ksf_fail", at=None)
                            continue
                    s.cmd("sreg_finish", upload="g.up", out="g.file")
                    s.cmd("clogin_start", rng=rng, pw=pw, out_state="l.cl", out_msg="l.cq")
                    s.cmd("slogin_start", rng=rng, setup="S", file="g.file", req="l.cq", cred=b"id", out_state="l.sl", out_msg="l.cr")
                    if at == 1:
                        s.cmd("ksf_fail", at=1)
                    g = s.cmd("clogin_finish", state="l.cl", pw=pw, resp="l.cr", ksf=mode, out="l.cf")
                    evals += 4
                    stats["faults"] += 1
                    if g.ok or g.get("err") != "LibraryError/KsfError":
                        V("KSF failure at login not returned as KsfError", "%s" % dict((k, v) for k, v in g.items() if k in ("ok", "err", "panic")))
                    if any(k in g for k in ("msg", "session_key", "export_key")):
                        V("failed KSF still produced outputs", str(dict(g)))
                    s.cmd("ksf_fail", at=None)
                    g2 = s.cmd("clogin_finish", state="l.cl", pw=pw, resp="l.cr", ksf=mode, out="l.cf")
                    if not g2.ok:
                        V("control: login after the injected fault was cleared failed", str(dict(g2)))
            s.cmd("clear")
    stats["suites"] = {su: stats["pairs"]}
    return {"evals": evals, "nontrivial": stats["finish_calls"] + stats["faults"], "samples": samples, "violations": viol, "inconclusive": [], "stats": stats}


def run_argon(job):
    su, tier = job["suite"], job["tier"]
    viol, samples = [], []
    stats = {"argon_pairs": 0}
    evals = 0

    def V(sig, what):
        viol.append({"sig": "C15 " + sig, "what": "%s: %s" % (su, what)})

    with okv.Session(su) as s:
        s.cmd("ksf_new", id="def", param="default")
        s.cmd("ksf_new", id="cheapA", param={"m": 64, "t": 1, "p": 1})
        s.cmd("ksf_new", id="cheapA2", param={"m": 64, "t": 1, "p": 1})
        s.cmd("ksf_new", id="cheapB", param={"m": 64, "t": 2, "p": 1})
        s.cmd("ksf_new", id="cheapC", param={"m": 128, "t": 1, "p": 1})
        # instances that differ from cheapA ONLY in lanes / variant / version / secret
        s.cmd("ksf_new", id="lanes2", param={"m": 64, "t": 1, "p": 2})
        s.cmd("ksf_new", id="algI", param={"m": 64, "t": 1, "p": 1, "alg": "i"})
        s.cmd("ksf_new", id="algD", param={"m": 64, "t": 1, "p": 1, "alg": "d"})
        s.cmd("ksf_new", id="ver10", param={"m": 64, "t": 1, "p": 1, "ver": 16})
        s.cmd("ksf_new", id="secret", param={"m": 64, "t": 1, "p": 1, "secret": "70657070657270657070657221"})
        s.cmd("ksf_new", id="secret2", param={"m": 64, "t": 1, "p": 1, "secret": "70657070657270657070657221"})
        # an explicitly configured output length: equal to the suite's Nh it is cheapA again; any other length cannot produce the
        # Nh-byte value the protocol needs, so the configured instance must be refused (an error value), never replaced or cut
        nh = s.sz.nh
        s.cmd("ksf_new", id="outNh", param={"m": 64, "t": 1, "p": 1, "out": nh})
        s.cmd("ksf_new", id="out16", param={"m": 64, "t": 1, "p": 1, "out": 16})
        s.cmd("ksf_new", id="out2Nh", param={"m": 64, "t": 1, "p": 1, "out": 2 * nh})
        unusable = ("out16", "out2Nh")
        # memory above the crate's default (19 MiB): a valid, more expensive instance
        s.cmd("ksf_new", id="mem24", param={"m": 24 * 1024, "t": 1, "p": 1})
        s.cmd("ksf_new", id="mem24b", param={"m": 24 * 1024, "t": 1, "p": 1})
        key = {None: "default", "def": "default", "cheapA": "A", "cheapA2": "A", "cheapB": "B", "cheapC": "C", "lanes2": "L2", "algI": "I", "algD": "D",
               "ver10": "V10", "secret": "S", "secret2": "S", "outNh": "A", "out16": "unusable-16", "out2Nh": "unusable-2Nh", "mem24": "M24", "mem24b": "M24"}
        regm = [None, "def", "cheapA", "cheapB", "secret", "mem24"] if tier == "quick" else [None, "def", "cheapA", "cheapB", "cheapC", "lanes2", "algI", "ver10", "secret", "mem24"]
        logm = [None, "def", "cheapA", "cheapA2", "cheapB", "cheapC", "lanes2", "algI", "algD", "ver10", "secret", "secret2", "outNh", "out16", "out2Nh", "mem24b"]
        # registration with an unusable instance: an error value (KsfError), no upload
        for um in unusable:
            rng = s.rng("r", proto.H("c15u", su, job["seed"], um))
            s.cmd("setup_new", rng=rng, out="S")
            s.cmd("creg_start", rng=rng, pw=b"argon-password", out_state="g.cs", out_msg="g.rq")
            s.cmd("sreg_start", setup="S", req="g.rq", cred=b"id", out="g.rr")
            c = s.cmd("creg_finish", rng=rng, state="g.cs", pw=b"argon-password", resp="g.rr", ksf=um, out="g.up")
            evals += 4
            stats["argon_unusable"] = stats.get("argon_unusable", 0) + 1
            if c.get("panic") or c.get("died"):
                V("Argon2: registration with an unusable instance panicked", "%s: %s" % (um, c.get("panic") or "died"))
            elif c.ok:
                V("Argon2: registration succeeded with an instance that cannot produce Nh bytes", um)
            elif c.err != "LibraryError/KsfError":
                V("Argon2: unusable instance reported as %s" % c.err, um)
        pw = b"argon-password"
        for rm in regm:
            rng = s.rng("r", proto.H("c15a", su, job["seed"]))
            s.cmd("setup_new", rng=rng, out="S")
            s.cmd("creg_start", rng=rng, pw=pw, out_state="g.cs", out_msg="g.rq")
            s.cmd("sreg_start", setup="S", req="g.rq", cred=b"id", out="g.rr")
            c = s.cmd("creg_finish", rng=rng, state="g.cs", pw=pw, resp="g.rr", ksf=rm, out="g.up")
            s.cmd("sreg_finish", upload="g.up", out="g.file")
            evals += 5
            if c.failed:
                V("control: Argon2 registration failed", str(dict(c)))
                continue
            for lm in logm:
                s.cmd("clogin_start", rng=rng, pw=pw, out_state="l.cl", out_msg="l.cq")
                s.cmd("slogin_start", rng=rng, setup="S", file="g.file", req="l.cq", cred=b"id", out_state="l.sl", out_msg="l.cr")
                g = s.cmd("clogin_finish", state="l.cl", pw=pw, resp="l.cr", ksf=lm, out="l.cf", params_via=["new", "clone", "literal", "default"][stats["argon_pairs"] % 4])
                evals += 3
                stats["argon_pairs"] += 1
                expect = key[rm] == key[lm]
                case = {"suite": su, "registration_ksf": rm or "absent", "login_ksf": lm or "absent"}
                if g.get("panic") or g.get("died"):
                    V("Argon2: login with instance %s panicked" % (lm or "absent"), "%s %s" % (case, g.get("panic") or "died"))
                elif lm in unusable:
                    stats["argon_unusable"] = stats.get("argon_unusable", 0) + 1
                    if g.ok:
                        V("Argon2: login succeeded with an instance that cannot produce Nh bytes", str(case))
                    elif g.err != "LibraryError/KsfError":
                        V("Argon2: unusable login instance reported as %s" % g.err, str(case))
                elif g.ok != expect:
                    V("Argon2: login under (registration %s, login %s) %s" % (rm or "absent", lm or "absent", "succeeded" if g.ok else "failed"), "%s %s" % (case, g.get("err")))
                elif not g.ok and g.err != "InvalidLoginError":
                    V("Argon2 mismatch: error %s" % g.err, str(case))
                elif g.ok and g.export_key != c.export_key:
                    V("Argon2 match: export key differs", str(case))
                if len(samples) < 1 and not expect:
                    samples.append(dict(case, outcome=g.get("err")))
    return {"evals": evals, "nontrivial": stats["argon_pairs"], "samples": samples, "violations": viol, "inconclusive": [], "stats": stats}


def floors(tier, stats, results):
    out = []
    missing = [x for x in okv.SUITES20 if stats.get("suites", {}).get(x, 0) < 40]
    if missing:
        out.append("fewer than 40 KSF pairs for suites %s" % missing)
    if stats.get("argon_pairs", 0) < 4 * 20:
        out.append("Argon2 matrix under-observed")
    for via in ("new", "clone", "literal", "default"):
        for k in ("ksf", "noksf"):
            for cx in ("ctx", "noctx"):
                if stats.get("combos", {}).get("%s/%s/%s" % (via, k, cx), 0) < 20:
                    out.append("login parameters built via %s with %s and %s seen fewer than 20 times" % (via, k, cx))
    return out
