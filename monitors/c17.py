"""C17 - deterministic in the supplied randomness, and every random value is fresh.

(a) determinism: the same world run twice in one process and in two separate processes gives
    byte-identical outputs; bytes of the tape beyond the last consumed one are irrelevant.
(b) freshness: the named random values (OPRF blinds, envelope / masking / client / server nonces,
    ephemeral keys, OPRF seed, static and fake key pairs, fake-record masking key) are pairwise
    distinct across independent tapes and never coincide within a run.
(c) tape sensitivity: for every draw i of every operation, re-running with a tape equal before
    draw i and different from it on leaves every value fed by earlier draws unchanged and changes
    the value fed by draw i. Draw -> value attribution is inferred by the model's relations.
"""
from . import okv, proto
from .c09 import blind_from_draws, find_keypair
from .refmodel import selftest
from .refmodel.opaque import Opaque

LEVEL = "exploration"
RULE = ("per suite: worlds (setup, registration, real login, fake-record login) on seeded tapes; (a) each world re-run in "
        "the same and in a second process; (b) named random values collected over N independent tapes; (c) for every "
        "operation and every recorded draw (quick: first/last 6 draws of long rejection-sampling runs) a variant tape that "
        "differs from that draw on; non-trivial = a (operation, draw) variant or a (value name, tape pair) comparison; "
        "distinct = distinct (suite, world, operation, draw)")
ASSUMPTIONS = ["production build (cfg(not(test))) is what the harness links; draw sizes recorded as evidence",
               "attribution of draws to values uses the reference model's relations (verbatim, seed->key pair, wide reduction / rejection sampling)"]


def jobs(tier, seed):
    return [{"suite": su, "seed": seed, "tier": tier, "cost": okv.suite_cost(su)} for su in okv.SUITES20]


def regen(seed, tape, reply):
    d = reply.get("draws")
    if not d:
        return [], []
    out, poss, pos = [], [], d["pos"]
    for ln in d["lens"]:
        out.append(okv.stream_bytes(seed, tape, pos, ln))
        poss.append(pos)
        pos += ln
    return out, poss


class Ops:
    """the five randomised operations, each runnable on an arbitrary (seed, tape) against fixed inputs"""

    def __init__(self, s, m, sz):
        self.s, self.m, self.sz = s, m, sz

    def named(self, op, r):
        """named random values visible in the outputs of an operation"""
        sz, bx = self.sz, bytes.fromhex
        if op == "setup_new":
            b = bx(r.ser)
            return {"oprf_seed": b[:sz.nh], "server_sk": b[sz.nh:sz.nh + sz.nsk], "fake_sk": b[sz.nh + sz.nsk:]}
        if op == "creg_start":
            return {"blind": bx(r.state)[:sz.ns]}
        if op == "creg_finish":
            return {"envelope_nonce": bx(r.msg)[sz.npk + sz.nh:sz.npk + sz.nh + 32]}
        if op == "clogin_start":
            st = bx(r.state)
            o = sz.ns + sz.creq
            return {"blind": st[:sz.ns], "client_e_sk": st[o:o + sz.nsk], "client_nonce": st[o + sz.nsk:]}
        if op in ("slogin_start", "slogin_start_fake"):
            msg = bx(r.msg)
            o = sz.noe + 32 + sz.masked
            v = {"masking_nonce": msg[sz.noe:sz.noe + 32], "server_nonce": msg[o:o + 32], "server_e_pk": msg[o + 32:o + 32 + sz.npk]}
            return v
        raise KeyError(op)

    def run(self, op, seed, tape, ctx):
        s = self.s
        s.rng("t", seed, tape)
        if op == "setup_new":
            return s.cmd("setup_new", rng="t", out="T.S")
        if op == "creg_start":
            return s.cmd("creg_start", rng="t", pw=ctx["pw"], out_state="T.cs", out_msg="T.rq")
        if op == "creg_finish":
            return s.cmd("creg_finish", rng="t", state="B.cs", pw=ctx["pw"], resp="B.rr", out="T.up")
        if op == "clogin_start":
            return s.cmd("clogin_start", rng="t", pw=ctx["pw"], out_state="T.cl", out_msg="T.cq")
        if op == "slogin_start":
            return s.cmd("slogin_start", rng="t", setup="B.S", file="B.file", req="B.cq", cred=ctx["cred"], out_state="T.sl", out_msg="T.cr")
        if op == "slogin_start_fake":
            return s.cmd("slogin_start", rng="t", setup="B.S", file=None, req="B.cq", cred=ctx["cred"], out_state="T.sl", out_msg="T.cr")
        raise KeyError(op)

    def attribute(self, op, draws, vals, extra):
        """value name -> index of the draw that feeds it (by relation)"""
        m = self.m
        a = {}
        for name, v in vals.items():
            for i, d in enumerate(draws):
                if name in ("oprf_seed", "envelope_nonce", "client_nonce", "masking_nonce", "server_nonce", "fake_masking_key") and d == v:
                    a[name] = i
                    break
                if name in ("server_sk", "fake_sk", "client_e_sk") and len(d) == m.nsk and m.ke.derive_dh_keypair(m.oprf, d)[0] == v:
                    a[name] = i
                    break
                if name == "server_e_pk" and len(d) == m.nsk and m.ke.derive_dh_keypair(m.oprf, d)[1] == v:
                    a[name] = i
                    break
                if name == "blind":
                    if m.oprf.key == "r255":
                        if len(d) == 64 and m.oprf.G.encode_scalar(int.from_bytes(d, "little") % m.oprf.G.order) == v:
                            a[name] = i
                            break
                    elif d == v:
                        a[name] = i
                        break
        return a


def run_job(job):
    ok, detail = selftest.run()
    if not ok:
        return {"evals": 0, "nontrivial": 0, "samples": [], "violations": [], "inconclusive": [detail], "stats": {}}
    su, tier = job["suite"], job["tier"]
    rnd = proto.pyrng("c17", su, job["seed"])
    sz = okv.Sizes(su)
    m = Opaque(sz.oprf, sz.ke)
    viol, samples = [], []
    stats = {"determinism_runs": 0, "freshness_values": 0, "freshness_tapes": 0, "sensitivity_variants": 0, "unattributed_draws": 0,
             "attributed_draws": 0, "beyond_consumed_checks": 0, "draw_shapes": {}}
    evals = 0
    bx = bytes.fromhex

    def V(sig, what):
        viol.append({"sig": "C17 " + sig, "what": "%s: %s" % (su, what)})

    def world(s, seed):
        """all outputs of one fixed world on one seeded tape"""
        rng = s.rng("w", seed)
        out = []
        st = s.cmd("setup_new", rng=rng, out="W.S")
        out.append(("setup", st.get("ser"), st.get("draws")))
        reg = proto.register(s, rng, "W.S", b"pw", b"cred", id_u=b"u", wire=False, tag="W.g")
        for nm, r in reg.steps:
            out.append((nm, r.get("msg"), r.get("state"), r.get("export_key"), r.get("file"), r.get("draws")))
        lg = proto.login(s, rng, rng, "W.S", reg.file_h if reg.ok else None, b"pw", b"cred", id_u_c=b"u", id_u_s=b"u", ctx_c=b"c", ctx_s=b"c", wire=False, tag="W.l")
        for nm, r in lg.steps:
            out.append((nm, r.get("msg"), r.get("state"), r.get("session_key"), r.get("export_key"), r.get("draws"), r.get("err")))
        fk = proto.login(s, rng, rng, "W.S", None, b"pw", b"ghost", wire=False, tag="W.f")
        for nm, r in fk.steps:
            out.append((nm, r.get("msg"), r.get("state"), r.get("err"), r.get("draws")))
        return out, (st, reg, lg, fk)

    with okv.Session(su) as s, okv.Session(su) as s2:
        ops = Ops(s, m, sz)
        # ------------------------------------------------------------------ (a) determinism
        nworlds = 3 if tier == "quick" else 40
        inventory = {}
        for wi in range(nworlds):
            seed = proto.H("c17", su, job["seed"], wi)
            w1, (st, reg, lg, fk) = world(s, seed)
            w2, _ = world(s, seed)
            w3, _ = world(s2, seed)
            evals += 3 * len(w1)
            stats["determinism_runs"] += 3
            if not (reg.ok and lg.ok and fk.failed_at == "clogin_finish"):
                V("control: world did not run as expected", "%s %s %s" % (reg.first_failure(), lg.first_failure(), fk.failed_at))
                continue
            if w1 != w2:
                diff = [a[0] for a, b in zip(w1, w2) if a != b]
                V("same tape, same process: outputs differ (hidden entropy / state)", "first differing steps %s" % diff[:4])
            if w1 != w3:
                diff = [a[0] for a, b in zip(w1, w3) if a != b]
                V("same tape, another process: outputs differ (hidden entropy)", "first differing steps %s" % diff[:4])
            # ---------------------------------------------------------------- (b) inventory of this tape
            vals = {}
            vals.update({"setup." + k: v for k, v in ops.named("setup_new", st).items()})
            vals.update({"reg." + k: v for k, v in ops.named("creg_start", reg.steps[0][1]).items()})
            vals.update({"reg." + k: v for k, v in ops.named("creg_finish", reg.creg_finish).items()})
            cstart = [r for n, r in lg.steps if n == "clogin_start"][0]
            vals.update({"login." + k: v for k, v in ops.named("clogin_start", cstart).items()})
            vals.update({"login." + k: v for k, v in ops.named("slogin_start", lg.slogin_start).items()})
            fstart = [r for n, r in fk.steps if n == "clogin_start"][0]
            vals.update({"fake." + k: v for k, v in ops.named("clogin_start", fstart).items()})
            fs = fk.slogin_start
            vals.update({"fake." + k: v for k, v in ops.named("slogin_start_fake", fs).items()})
            # fake masking key: the recorded Nh-byte draw that explains the masked response
            fdraws, _ = regen(seed, b"", fs)
            fmsg = bx(fs.msg)
            spk = bx(st.pk)
            fmk = None
            for d in fdraws:
                if len(d) == sz.nh and m.mask(d, fmsg[sz.noe:sz.noe + 32], spk, bytes(32 + sz.nm)) == fmsg[sz.noe + 32:sz.noe + 32 + sz.masked]:
                    fmk = d
            if fmk is None:
                V("fake-record masking key is not a recorded random draw", "world %d" % wi)
            else:
                vals["fake.masking_key"] = fmk
            # a server key pair made the documented way for ServerSetup::new_with_key: KeGroup::random_sk on the caller's RNG
            kseed = proto.H(seed, "keygen")
            k1 = s.cmd("g_random_sk", rng=s.rng("kg", kseed))
            k2 = s2.cmd("g_random_sk", rng=s2.rng("kg", kseed))
            evals += 2
            if k1.failed or k2.failed:
                V("control: random_sk failed", str(dict(k1))[:200])
            else:
                if k1.sk != k2.sk:
                    V("same tape, another process: outputs differ (hidden entropy)", "KeGroup::random_sk: %s vs %s" % (k1.sk, k2.sk))
                ks = s.cmd("setup_new_with_key", rng="kg", sk=bx(k1.sk), out="W.K")
                evals += 1
                if ks.ok:
                    vals["keygen.random_sk"] = bx(k1.sk)
                    vals["keygen.server_pk"] = bx(ks.pk)
                else:
                    V("control: new_with_key refused a key made by random_sk", str(ks.get("err")))
            # within a run no two values of equal length coincide
            seen = {}
            for k, v in vals.items():
                stats["freshness_values"] += 1
                if v in seen:
                    V("two random values coincide within a run", "%s == %s (%s)" % (k, seen[v], v.hex()))
                seen[v] = k
                if v == bytes(len(v)):
                    V("a random value is all-zero", k)
            for k, v in vals.items():
                inventory.setdefault(k, []).append(v)
            for nm, r in (("setup_new", st), ("creg_start", reg.steps[0][1]), ("clogin_start", cstart), ("slogin_start", lg.slogin_start), ("slogin_start(None)", fs)):
                lens = r.get("draws", {}).get("lens", [])
                key = "%s: draw sizes %s" % (nm, sorted(set(lens)))
                stats["draw_shapes"][key] = stats["draw_shapes"].get(key, 0) + 1
            s.cmd("clear")
            s2.cmd("clear")
        stats["freshness_tapes"] = nworlds
        for k, lst in inventory.items():
            if len(set(lst)) != len(lst):
                V("random value %s repeats across independent tapes" % k, "%d tapes, %d distinct" % (len(lst), len(set(lst))))
        # ------------------------------------------------------------------ (c) tape sensitivity
        bseed = proto.H("c17base", su, job["seed"])
        rng = s.rng("b", bseed)
        s.cmd("setup_new", rng=rng, out="B.S")
        ctx = {"pw": b"sens-pw", "cred": b"sens-cred"}
        a = s.cmd("creg_start", rng=rng, pw=ctx["pw"], out_state="B.cs", out_msg="B.rq")
        b = s.cmd("sreg_start", setup="B.S", req="B.rq", cred=ctx["cred"], out="B.rr")
        c = s.cmd("creg_finish", rng=rng, state="B.cs", pw=ctx["pw"], resp="B.rr", out="B.up")
        d = s.cmd("sreg_finish", upload="B.up", out="B.file")
        e = s.cmd("clogin_start", rng=rng, pw=ctx["pw"], out_state="B.cl", out_msg="B.cq")
        evals += 6
        for op in ("setup_new", "creg_start", "creg_finish", "clogin_start", "slogin_start", "slogin_start_fake"):
            for rep in range(1 if tier == "quick" else 8):
                tseed = proto.H("c17t", su, job["seed"], op, rep)
                r0 = ops.run(op, tseed, b"", ctx)
                evals += 1
                if r0.failed:
                    V("control: %s failed" % op, str(dict(r0)))
                    continue
                draws, poss = regen(tseed, b"", r0)
                end = poss[-1] + len(draws[-1]) if draws else 0
                v0 = ops.named(op, r0)
                if op == "slogin_start_fake":
                    msg = bx(r0.msg)
                    spk = bx(s.cmd("setup_pk", h="B.S").pk)
                    for dk in draws:
                        if len(dk) == sz.nh and m.mask(dk, msg[sz.noe:sz.noe + 32], spk, bytes(32 + sz.nm)) == msg[sz.noe + 32:sz.noe + 32 + sz.masked]:
                            v0["fake_masking_key"] = dk
                attr = ops.attribute(op, draws, v0, None)
                missing = [k for k in v0 if k not in attr]
                if missing:
                    V("random value %s of %s is not a function of any recorded draw" % (missing, op), "draw sizes %s" % [len(x) for x in draws][:8])
                full0 = (r0.get("msg"), r0.get("state"), r0.get("ser"), r0.get("export_key"))
                # bytes beyond the last consumed one are irrelevant
                tape = okv.stream_bytes(tseed, b"", 0, end)
                r1 = ops.run(op, b"another continuation", tape, ctx)
                evals += 1
                stats["beyond_consumed_checks"] += 1
                if (r1.get("msg"), r1.get("state"), r1.get("ser"), r1.get("export_key")) != full0:
                    V("%s depends on tape bytes beyond those it consumed" % op, "consumed %d bytes" % end)
                idxs = list(range(len(draws)))
                if tier == "quick" and len(idxs) > 12:
                    idxs = idxs[:6] + idxs[-6:]
                fed = {i: [k for k, j in attr.items() if j == i] for i in idxs}
                for i in idxs:
                    tape = okv.stream_bytes(tseed, b"", 0, poss[i])
                    ri = ops.run(op, proto.H("variant", i, rep), tape, ctx)
                    evals += 1
                    stats["sensitivity_variants"] += 1
                    if ri.failed:
                        V("%s failed on a variant tape" % op, str(dict(ri)))
                        continue
                    vi = ops.named(op, ri)
                    if op == "slogin_start_fake":
                        di, _ = regen(proto.H("variant", i, rep), tape, ri)
                        msg = bx(ri.msg)
                        for dk in di:
                            if len(dk) == sz.nh and m.mask(dk, msg[sz.noe:sz.noe + 32], spk, bytes(32 + sz.nm)) == msg[sz.noe + 32:sz.noe + 32 + sz.masked]:
                                vi["fake_masking_key"] = dk
                    for k, j in attr.items():
                        if j < i and vi.get(k) != v0[k]:
                            V("%s.%s (fed by draw %d) changed when the tape changed only from draw %d on" % (op, k, j, i), "%s -> %s" % (v0[k].hex(), vi.get(k, b"").hex()))
                    if fed[i]:
                        stats["attributed_draws"] += 1
                        for k in fed[i]:
                            if vi.get(k) == v0[k]:
                                V("%s.%s does not change when the draw that feeds it (draw %d) changes" % (op, k, i), "value %s stays; it is not taken from the tape" % v0[k].hex())
                    else:
                        stats["unattributed_draws"] += 1
                # RNG fault injection: if the caller's RNG fails at draw i, the operation must not complete with a value it
                # did not obtain from the RNG (the RNG's own panic / an error is the expected outcome)
                for i in idxs[:8]:
                    s.rng("t", tseed, b"")
                    s.cmd("rng_fail", id="t", at=i + 1)
                    rf = {"setup_new": lambda: s.cmd("setup_new", rng="t", out="T.S"),
                          "creg_start": lambda: s.cmd("creg_start", rng="t", pw=ctx["pw"], out_state="T.cs", out_msg="T.rq"),
                          "creg_finish": lambda: s.cmd("creg_finish", rng="t", state="B.cs", pw=ctx["pw"], resp="B.rr", out="T.up"),
                          "clogin_start": lambda: s.cmd("clogin_start", rng="t", pw=ctx["pw"], out_state="T.cl", out_msg="T.cq"),
                          "slogin_start": lambda: s.cmd("slogin_start", rng="t", setup="B.S", file="B.file", req="B.cq", cred=ctx["cred"], out_state="T.sl", out_msg="T.cr"),
                          "slogin_start_fake": lambda: s.cmd("slogin_start", rng="t", setup="B.S", file=None, req="B.cq", cred=ctx["cred"], out_state="T.sl", out_msg="T.cr")}[op]()
                    evals += 1
                    stats["rng_faults"] = stats.get("rng_faults", 0) + 1
                    if rf.ok:
                        V("%s completed although the RNG failed at its draw %d (a 'random' value was not obtained from the RNG)" % (op, i + 1), "outputs %s" % str({k: rf.get(k) for k in ("msg", "ser")})[:200])
                    elif rf.get("panic") and "okv-rng-failure" not in rf["panic"].get("msg", ""):
                        V("%s panicked on an RNG failure with its own panic" % op, str(rf["panic"]))
                    # the RNG handle was consumed by the panic; it is re-created at the next iteration
                if len(samples) < 2 and op in ("clogin_start", "slogin_start_fake"):
                    samples.append({"suite": su, "operation": op, "draw_sizes": [len(x) for x in draws][:8], "attribution": attr, "variants_run": len(idxs)})
    stats["suites"] = {su: stats["sensitivity_variants"]}
    return {"evals": evals, "nontrivial": stats["sensitivity_variants"] + stats["freshness_values"], "samples": samples, "violations": viol,
            "inconclusive": [], "stats": stats}


def floors(tier, stats, results):
    out = []
    missing = [x for x in okv.SUITES20 if stats.get("suites", {}).get(x, 0) < 12]
    if missing:
        out.append("fewer than 12 tape-sensitivity variants for suites %s" % missing)
    if stats.get("attributed_draws", 0) < 20 * 10:
        out.append("fewer than 10 attributed draws per suite")
    return out
