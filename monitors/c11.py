"""C11 - invalid group elements and scalars are never accepted.

Refuting event: a message/state in which exactly one group-element or scalar field holds an
invalid encoding (identity, off-curve, out-of-range, non-canonical ristretto, small-order
Curve25519, zero / out-of-range scalar) decodes - natively, via bincode or via JSON; or a
Diffie-Hellman call is observed (KeGroup proxy) on such an input / with an all-zero output.
Validity is judged by the independent reference model, never by opaque-ke.
"""
import json

from . import okv, proto
from .refmodel import c25519, nist, selftest
from .refmodel.groups import KeGroupModel, OprfSuite

LEVEL = "exploration"
RULE = ("per suite, every group-element / scalar field of the 11 native layouts (plus the public keys that only the "
        "serde forms carry) x every invalid class of that field's group, all other fields valid, through native, "
        "bincode and JSON decoders; non-trivial = an injection the reference model classifies as invalid and whose "
        "unpatched control decodes; distinct = distinct (suite, decoder, field, class, value, codec). On the 5 "
        "KeGroup-proxy suites additionally every Diffie-Hellman call made by honest and adversarial protocol steps is "
        "checked (input valid and not small-order, output not all-zero)")
ASSUMPTIONS = ["validity oracle = reference model (RFC 9496 / SEC1 / RFC 7748), gated by RFC vectors",
               "serde fields are located by value inside the bincode / JSON form of a valid object"]

CURVES = {"p256": nist.P256, "p384": nist.P384, "p521": nist.P521}


def jobs(tier, seed):
    out = [{"suite": su, "seed": seed, "tier": tier, "cost": okv.suite_cost(su)} for su in okv.SUITES20]
    out += [{"suite": su, "seed": seed, "tier": tier, "cost": 5 + okv.suite_cost(su), "mon": True} for su in okv.MON_SUITES]
    return out


RISTRETTO_BAD = {
    "non-canonical": ["00ffffffffffffffffffffffffffffffffffffffffffffffffffffffffffffff",
                      "ffffffffffffffffffffffffffffffffffffffffffffffffffffffffffffff7f",
                      "f3ffffffffffffffffffffffffffffffffffffffffffffffffffffffffffff7f",
                      "edffffffffffffffffffffffffffffffffffffffffffffffffffffffffffff7f"],
    "negative": ["0100000000000000000000000000000000000000000000000000000000000000",
                 "01ffffffffffffffffffffffffffffffffffffffffffffffffffffffffffff7f",
                 "ed57ffd8c914fb201471d1c3d245ce3c746fcbe63a3679d51b6a516ebebe0e20",
                 "c34c4e1826e5d403b78e246e88aa051c36ccf0aafebffe137d148a2bf9104562"],
    "non-square": ["26948d35ca62e643e26a83177332e6b6afeb9d08e4268b650f1f5bbd8d81d371",
                   "4eac077a713c57b4f4397629a4145982c661f48044dd3f96427d40b147d9742f",
                   "de6a7b00deadc788eb6b6c8d20c0ae96c2f2019078fa604fee5b87d6e989ad7b"],
    "negative-xy": ["3eb858e78f5a7254d8c9731174a94f76755fd3941c0ac93735c07ba14579630e",
                    "a45fdc55c76448c049a1ab33f17023edfb2be3581e9c7aade8a6125215e04220"],
    "y-zero": ["ecffffffffffffffffffffffffffffffffffffffffffffffffffffffffffff7f"],
    "identity": ["00" * 32],
}


def invalid_elems(grp, rnd, thorough):
    """[(class, bytes)] candidates; the caller keeps those the model calls invalid"""
    out = []
    if grp in CURVES:
        c = CURVES[grp]
        fl = c.flen
        out.append(("identity", bytes(fl + 1)))
        out.append(("identity", b"\x00" + c.G[0].to_bytes(fl, "big")))
        for tag in (2, 3):
            # off-curve x (smallest few, and random ones)
            n = 0
            x = 1
            while n < (4 if thorough else 2):
                if c.sqrt((x * x * x + c.a * x + c.b) % c.p) is None:
                    out.append(("off-curve", bytes([tag]) + x.to_bytes(fl, "big")))
                    n += 1
                x += 1
            n = 0
            while n < (24 if thorough else 2):
                x = rnd.randrange(c.p)
                if c.sqrt((x * x * x + c.a * x + c.b) % c.p) is None:
                    out.append(("off-curve", bytes([tag]) + x.to_bytes(fl, "big")))
                    n += 1
            out.append(("x>=p", bytes([tag]) + c.p.to_bytes(fl, "big")))
            if c.p + 5 < 256 ** fl:
                out.append(("x>=p", bytes([tag]) + (c.p + 5).to_bytes(fl, "big")))
            out.append(("x>=p", bytes([tag]) + b"\xff" * fl))
        for tag in (1, 4, 6, 7, 0x80, 0xff):
            out.append(("bad-tag", bytes([tag]) + c.G[0].to_bytes(fl, "big")))
    elif grp == "r255":
        for cls, lst in RISTRETTO_BAD.items():
            for e in lst:
                out.append((cls, bytes.fromhex(e)))
        # a valid encoding with the top bit set (non-canonical)
        out.append(("non-canonical", (int.from_bytes(c25519.r_encode(c25519.B), "little") | (1 << 255)).to_bytes(32, "little")))
        n = 0
        while n < (64 if thorough else 3):
            b = bytes(rnd.randrange(256) for _ in range(32))
            if c25519.r_decode(b) is None:
                out.append(("random-invalid", b))
                n += 1
    elif grp == "x25519":
        for u in c25519.X_SMALL_ORDER:
            reps = {u, u + c25519.P} if u + c25519.P < 2 ** 255 else {u}
            for r in sorted(reps):
                out.append(("small-order", r.to_bytes(32, "little")))
                out.append(("small-order-bit255", (r | (1 << 255)).to_bytes(32, "little")))
        out.append(("small-order", c25519.P.to_bytes(32, "little")))
    return out


def invalid_scalars(grp, is_ke):
    out = []
    if grp in CURVES:
        c = CURVES[grp]
        fl = c.flen
        out += [("zero", bytes(fl)), (">=order", c.n.to_bytes(fl, "big")), (">=order", b"\xff" * fl)]
        if c.n + 1 < 256 ** fl:
            out.append((">=order", (c.n + 1).to_bytes(fl, "big")))
        if 2 * c.n < 256 ** fl:
            out.append((">=order", (2 * c.n).to_bytes(fl, "big")))
    elif grp == "r255":
        L = c25519.L
        out += [("zero", bytes(32)), (">=order", L.to_bytes(32, "little")), (">=order", (L + 1).to_bytes(32, "little")),
                (">=order", b"\xff" * 32), (">=order", (1 << 255).to_bytes(32, "little")), (">=order", (8 * L).to_bytes(32, "little"))]
    elif grp == "x25519" and is_ke:
        out += [("zero", bytes(32)), ("not-clamped", b"\x01" + bytes(30) + b"\x40"), ("not-clamped", bytes(31) + b"\x80"),
                ("not-clamped", b"\xff" * 32), ("not-clamped", b"\x08" + bytes(31))]
    return out


def patch_json(obj, old, new):
    """replace every list-of-ints equal to `old`; returns count"""
    n = 0
    if isinstance(obj, list):
        if len(obj) == len(old) and all(isinstance(x, int) for x in obj) and bytes(obj) == old:
            obj[:] = list(new)
            return 1
        for x in obj:
            n += patch_json(x, old, new)
    elif isinstance(obj, dict):
        for k in obj:
            v = obj[k]
            if isinstance(v, list) and len(v) == len(old) and all(isinstance(x, int) for x in v) and bytes(v) == old:
                obj[k] = list(new)
                n += 1
            else:
                n += patch_json(v, old, new)
    return n


def run_job(job):
    ok, detail = selftest.run()
    if not ok:
        return {"evals": 0, "nontrivial": 0, "samples": [], "violations": [], "inconclusive": [detail], "stats": {}}
    if job.get("mon"):
        return run_mon(job)
    su, tier = job["suite"], job["tier"]
    thorough = tier == "thorough"
    rnd = proto.pyrng("c11", su, job["seed"])
    sz = okv.Sizes(su)
    oprf = OprfSuite(sz.oprf)
    ke = KeGroupModel(sz.ke)
    viol, samples = [], []
    stats = {"injections": 0, "rejected": 0, "controls_ok": 0, "by_codec": {"native": 0, "bincode": 0, "json": 0},
             "by_class": {}, "unlocatable": 0, "valid_swaps_ok": 0, "model_kept_valid": 0}
    seen = set()
    evals = 0

    def valid_for(cls, b):
        if cls == "E":
            return oprf.G.decode_elem(b) is not None
        if cls == "S":
            return oprf.G.decode_scalar(b) is not None
        if cls == "P":
            return ke.valid_pk(b)
        return ke.valid_sk(b)

    with okv.Session(su) as s:
        c0, st0, reg0, lg0 = proto.corpus(s, proto.H("c11", su, job["seed"], 0), tag="u")
        c1, st1, reg1, lg1 = proto.corpus(s, proto.H("c11", su, job["seed"], 1), pw=b"other", cred=b"c2", tag="v")
        if c0 is None or c1 is None:
            return {"evals": 0, "nontrivial": 0, "samples": [], "violations": [],
                    "inconclusive": ["could not build a valid corpus - C01 matter"], "stats": {}}
        handles = {"setup": "uS", "rreq": "ug.rq", "rresp": "ug.rr", "rupl": "ug.up", "file": "ug.file", "creg": "ug.cs",
                   "creq": "ul.cq", "cresp": "ul.cr", "cfin": "ul.cf", "clogin": "ul.cl", "slogin": "ul.sl"}
        cand_cache = {}
        for kind in proto.KINDS11:
            v = c0[kind]
            bser = bytes.fromhex(s.ser(handles[kind], "bincode").data)
            jser = s.ser(handles[kind], "json").data
            # controls: the unpatched forms decode in all codecs
            ctrl = [s.de(kind, v).ok, s.de(kind, bser, codec="bincode").ok, s.de(kind, jser, codec="json").ok]
            evals += 3
            if not all(ctrl):
                viol.append({"sig": "C11 control: valid %s rejected" % kind, "what": "%s valid %s rejected by codecs %s" % (su, kind, ctrl)})
                continue
            stats["controls_ok"] += 3
            fields = [(n, o, l, c) for (n, o, l, c) in sz.fields(kind) if c in "ESPK"]
            # serde-only public keys of the setup
            extra = []
            if kind == "setup":
                spk = bytes.fromhex(st0.pk)
                fake_sk = v[sz.nh + sz.nsk:]
                fpk = ke.pk_from_sk(fake_sk)
                extra = [("serde.keypair.pk", spk), ("serde.fake_keypair.pk", fpk)]
            for name, off, ln, cls in fields + [(n, None, len(b), "P") for n, b in extra]:
                grp = sz.oprf if cls in "ES" else sz.ke
                key = (cls in "EP", grp, cls == "K")
                if key not in cand_cache:
                    cand_cache[key] = invalid_elems(grp, rnd, thorough) if cls in "EP" else invalid_scalars(grp, cls == "K")
                cur = v[off:off + ln] if off is not None else dict(extra)[name]
                # positive control of the patching mechanism: swap in the same field of another valid object
                if off is not None:
                    alt = c1[kind][off:off + ln]
                    r = s.de(kind, v[:off] + alt + v[off + ln:])
                    evals += 1
                    if r.ok:
                        stats["valid_swaps_ok"] += 1
                    elif valid_for(cls, alt):
                        viol.append({"sig": "C11 control: valid field swap rejected %s.%s" % (kind, name),
                                     "what": "%s: %s.%s := valid value from another run rejected: %s" % (su, kind, name, r.err)})
                cands = list(cand_cache[key])
                if thorough and off is not None:
                    # every value of the first and of the last byte of the genuine field, kept when the model calls it invalid
                    for pos in (0, ln - 1):
                        for v_ in range(256):
                            if v_ != cur[pos]:
                                if pos == 0 and v_ == 5 and cls in "EP" and grp in CURVES:
                                    # SEC1 compact form of a VALID point: an alternative encoding (C10's subject for the
                                    # native decoders), not an invalid element in C11's sense - not judged here
                                    continue
                                cands.append(("byte%d-sweep" % (0 if pos == 0 else -1), cur[:pos] + bytes([v_]) + cur[pos + 1:]))
                for icls, bad in cands:
                    if len(bad) != ln:
                        continue
                    if valid_for(cls, bad):
                        stats["model_kept_valid"] += 1
                        continue
                    forms = []
                    if off is not None:
                        forms.append(("native", v[:off] + bad + v[off + ln:]))
                    if bser.count(cur) == 1:
                        forms.append(("bincode", bser.replace(cur, bad)))
                    else:
                        stats["unlocatable"] += 1
                    jo = json.loads(jser)
                    if patch_json(jo, cur, bad) == 1:
                        forms.append(("json", json.dumps(jo)))
                    else:
                        stats["unlocatable"] += 1
                    for codec, data in forms:
                        r = s.de(kind, data, codec=codec)
                        evals += 1
                        stats["injections"] += 1
                        stats["by_codec"][codec] += 1
                        stats["by_class"][icls] = stats["by_class"].get(icls, 0) + 1
                        seen.add((kind, name, icls, bad, codec))
                        if r.get("panic") or r.get("died"):
                            viol.append({"sig": "C11 %s decoder crashed" % kind, "what": "%s %s.%s := %s via %s: %s" % (su, kind, name, bad.hex(), codec, dict(r))})
                        elif r.ok:
                            fam = "nist" if grp.startswith("p") else grp
                            viol.append({"sig": "C11 %s.%s %s %s accepted" % (kind, name, fam, icls),
                                         "what": "%s: %s decoded via %s with %s := %s (%s %s); all other fields valid" % (
                                             su, kind, codec, name, bad.hex(), grp, icls),
                                         "kind": kind, "field": name, "value": bad.hex(), "codec": codec})
                        else:
                            stats["rejected"] += 1
                        if len(samples) < 2 and codec == "json" and not r.ok:
                            samples.append({"suite": su, "decoder": kind, "field": name, "class": icls, "value": bad.hex(),
                                            "codec": codec, "outcome": r.err})
    return {"evals": evals, "nontrivial": len(seen), "samples": samples, "violations": viol, "inconclusive": [], "stats": stats}


def check_dh(su, ke, events, viol, stats, where):
    for e in events or []:
        if e.get("op") != "dh":
            continue
        stats["dh_events"] += 1
        pk = bytes.fromhex(e["pk"])
        out = bytes.fromhex(e["out"])
        if not ke.valid_pk(pk):
            stats["dh_bad"] += 1
            viol.append({"sig": "C11 diffie-hellman computed on an invalid/small-order public key (%s)" % ke.key,
                         "what": "%s: %s: DH input %s is invalid per the model, output %s" % (su, where, pk.hex(), out.hex())})
        elif out == bytes(len(out)):
            stats["dh_bad"] += 1
            viol.append({"sig": "C11 diffie-hellman output all-zero (%s)" % ke.key,
                         "what": "%s: %s: DH input %s output all-zero" % (su, where, pk.hex())})


def run_mon(job):
    su, tier = job["suite"], job["tier"]
    rnd = proto.pyrng("c11m", su, job["seed"])
    sz = okv.Sizes(su)
    ke = KeGroupModel(sz.ke)
    viol, samples = [], []
    stats = {"dh_events": 0, "dh_bad": 0, "adversarial_steps": 0, "adversarial_steps_reaching_dh": 0, "mon_flows": 0}
    evals = 0
    with okv.Session(su) as s:
        nflows = 6 if tier == "quick" else 60
        c = None
        for i in range(nflows):
            c, st, reg, lg = proto.corpus(s, proto.H("c11m", su, job["seed"], i), pw=b"pw%d" % i, tag="u")
            if c is None:
                return {"evals": 0, "nontrivial": 0, "samples": [], "violations": [],
                        "inconclusive": ["honest flow failed on proxy suite - C01 matter"], "stats": {}}
            stats["mon_flows"] += 1
            evals += 9
            for f in (reg, lg):
                for nm, r in f.steps:
                    check_dh(su, ke, r.get("dh"), viol, stats, "honest " + nm)
        bad = [b for _, b in invalid_elems(sz.ke, rnd, tier == "thorough") if len(b) == sz.npk and not ke.valid_pk(b)]
        rng = s.rng("adv", proto.H("adv", su, job["seed"]))
        seen = set()
        for b in bad:
            # (1) KE1 with an invalid client ephemeral key -> server
            f = dict((n, (o, l)) for n, o, l, _ in sz.fields("creq"))
            o, l = f["client_e_pk"]
            r = s.de("creq", c["creq"][:o] + b + c["creq"][o + l:], out="bq")
            evals += 1
            stats["adversarial_steps"] += 1
            seen.add(("creq", b))
            if r.ok:
                r2 = s.cmd("slogin_start", rng=rng, setup="uS", file="ug.file", req="bq", cred=b"user-1", out_state="x1", out_msg="x2")
                evals += 1
                if r2.get("dh"):
                    stats["adversarial_steps_reaching_dh"] += 1
                check_dh(su, ke, r2.get("dh"), viol, stats, "ServerLogin::start on KE1 with client_e_pk=%s" % b.hex())
            # (2) KE2 with an invalid server ephemeral key -> client
            f = dict((n, (o, l)) for n, o, l, _ in sz.fields("cresp"))
            o, l = f["server_e_pk"]
            r = s.de("cresp", c["cresp"][:o] + b + c["cresp"][o + l:], out="br")
            evals += 1
            stats["adversarial_steps"] += 1
            seen.add(("cresp", b))
            if r.ok:
                r2 = s.cmd("clogin_finish", state="ul.cl", pw=b"pw%d" % (nflows - 1), resp="br", out="x3")
                evals += 1
                if r2.get("dh"):
                    stats["adversarial_steps_reaching_dh"] += 1
                check_dh(su, ke, r2.get("dh"), viol, stats, "ClientLogin::finish on KE2 with server_e_pk=%s" % b.hex())
            # (3) password file with an invalid client static key -> server
            r = s.de("file", b + c["file"][sz.npk:], out="bf")
            evals += 1
            stats["adversarial_steps"] += 1
            seen.add(("file", b))
            if r.ok:
                r2 = s.cmd("slogin_start", rng=rng, setup="uS", file="bf", req="ul.cq", cred=b"user-1", out_state="x1", out_msg="x2")
                evals += 1
                if r2.get("dh"):
                    stats["adversarial_steps_reaching_dh"] += 1
                check_dh(su, ke, r2.get("dh"), viol, stats, "ServerLogin::start on a record with client_s_pk=%s" % b.hex())
            # (4) malicious server key at registration, then a login against it
            r = s.de("rresp", c["rresp"][:sz.noe] + b, out="brr")
            evals += 1
            stats["adversarial_steps"] += 1
            seen.add(("rresp", b))
            if r.ok:
                r2 = s.cmd("creg_finish", rng=rng, state="ug.cs", pw=b"pw%d" % (nflows - 1), resp="brr", out="bup")
                evals += 1
                check_dh(su, ke, r2.get("dh"), viol, stats, "ClientRegistration::finish with server_s_pk=%s" % b.hex())
        samples.append({"suite": su, "honest_flows": stats["mon_flows"], "dh_events": stats["dh_events"],
                        "adversarial_keys_tried": [x.hex() for x in bad[:4]]})
    return {"evals": evals, "nontrivial": len(seen) + stats["dh_events"], "samples": samples, "violations": viol,
            "inconclusive": [], "stats": stats}


def floors(tier, stats, results):
    out = []
    if stats.get("injections", 0) < 5000:
        out.append("fewer than 5000 invalid injections observed")
    for codec in ("native", "bincode", "json"):
        if stats.get("by_codec", {}).get(codec, 0) < 1000:
            out.append("fewer than 1000 injections through %s" % codec)
    if stats.get("dh_events", 0) < 100:
        out.append("fewer than 100 Diffie-Hellman calls observed on the proxy suites")
    return out
