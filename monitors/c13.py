"""C13 - persisted state survives save / restart unchanged.

Crash-point enumeration with a differential oracle: persistence points = server setup before
registration, server setup before login, password file, client registration state, client login
state, server login state; codecs = {none, native bytes, serde-bincode, serde-JSON}. Every variant
replays the SAME random tapes as the uninterrupted baseline and must reproduce every message,
result, key and later state byte for byte; every reloaded object equals the original and
re-serialises identically in all three codecs.
"""
import itertools

from . import okv, proto

LEVEL = "fault_enumeration"
RULE = ("per suite and world (default parameters; explicit identities+context; absent password file; static key at the edge of the key space): assignments of a "
        "codec in {none, native, bincode, JSON} to each of the 6 persistence points (quick: all single-point reloads, "
        "all same-codec-everywhere, 96 random assignments; thorough: ALL 4^6 = 4096); non-trivial = an assignment with "
        "at least one reload whose run completed and was compared with the baseline; distinct = distinct (suite, world, "
        "assignment)")
ASSUMPTIONS = ["variants replay the baseline's RNG seed, so any difference is caused by the reload",
               "in-flight states and setup are compared through their native encodings and PartialEq"]
EXHAUSTIVE = {"thorough": "all 4^6 assignments of {none,native,bincode,json} to the 6 persistence points, 4 worlds x 20 suites"}
JOB_TIMEOUT = {"quick": 900, "thorough": 7200}
CODECS = [None, "native", "bincode", "json"]
POINTS = ["setup@registration", "setup@login", "password_file", "client_registration", "client_login", "server_login"]
WORLDS = [("default", None, None, None, False), ("explicit", b"alice", b"server", b"ctx", False), ("fake-record", None, b"srv", None, True),
          ("boundary-static-key", None, None, b"c", False)]


def boundary_key(sz):
    """a valid static key at the edge of the key space: order-1 (NIST, ristretto255), the smallest clamped key (Curve25519)"""
    from .refmodel import c25519, nist
    if sz.ke == "x25519":
        return c25519.clamp(bytes(32))
    if sz.ke == "r255":
        return (c25519.L - 1).to_bytes(32, "little")
    c = {"p256": nist.P256, "p384": nist.P384, "p521": nist.P521}[sz.ke]
    return (c.n - 1).to_bytes(c.flen, "big")


def jobs(tier, seed):
    out = []
    for su in okv.SUITES20:
        if tier == "quick":
            out.append({"suite": su, "seed": seed, "tier": tier, "cost": okv.suite_cost(su), "part": 0, "parts": 1})
        else:
            parts = 4 if ("p384" in su or "p521" in su) else 2
            for p in range(parts):
                out.append({"suite": su, "seed": seed, "tier": tier, "cost": okv.suite_cost(su), "part": p, "parts": parts})
    return out


def run_flow(s, su, wseed, world, assign, problems):
    """returns the tuple of observable bytes of one run"""
    _, idu, ids, ctx, fake = world
    kinds = {"S": "setup", "cs": "creg", "file": "file", "cl": "clogin", "sl": "slogin"}
    nev = [0]

    def reload(h, kind, codec, point):
        if codec is None:
            return h
        a = s.ser(h, codec)
        nev[0] += 2
        if not a.ok:
            problems.append(("serialize failed", point, codec, dict(a)))
            return h
        data = a.data if codec == "json" else bytes.fromhex(a.data)
        h2 = h + "'"
        b = s.de(kind, data, codec=codec, out=h2)
        if not b.ok:
            problems.append(("reload rejected", point, codec, b.err))
            return h
        e = s.cmd("eq", a=h, b=h2)
        nev[0] += 1
        if not e.eq:
            problems.append(("reloaded object != original (PartialEq)", point, codec, None))
        # re-serialises identically in all three codecs
        for c2 in ("native", "bincode", "json"):
            x, y = s.ser(h, c2), s.ser(h2, c2)
            nev[0] += 2
            if x.data != y.data:
                problems.append(("reloaded object serialises differently via %s" % c2, point, codec, None))
        return h2

    out = []
    rng = s.rng("r", wseed)
    if world[0] == "boundary-static-key":
        st = s.cmd("setup_new_with_key", rng=rng, sk=boundary_key(s.sz), out="S")
    else:
        st = s.cmd("setup_new", rng=rng, out="S")
    if st.failed:
        problems.append(("step failed", "setup", None, dict(st)))
        return None, 1
    out.append(st.ser)
    S = reload("S", "setup", assign[0], POINTS[0])
    pw, cred = b"password", b"cred-id"
    r1 = s.cmd("creg_start", rng=rng, pw=pw, out_state="cs", out_msg="rq")
    cs = reload("cs", "creg", assign[3], POINTS[3])
    r2 = s.cmd("sreg_start", setup=S, req="rq", cred=cred, out="rr")
    r3 = s.cmd("creg_finish", rng=rng, state=cs, pw=pw, resp="rr", id_u=idu, id_s=ids, out="up")
    r4 = s.cmd("sreg_finish", upload="up", out="file")
    nev[0] += 5
    for r in (r1, r2, r3, r4):
        if r.failed:
            problems.append(("step failed", "registration", None, dict(r)))
            return None, nev[0]
    out += [r1.msg, r1.state, r2.msg, r3.msg, r3.export_key, r3.server_s_pk, r4.file]
    fh = reload("file", "file", assign[2], POINTS[2])
    S = reload(S, "setup", assign[1], POINTS[1])
    l1 = s.cmd("clogin_start", rng=rng, pw=pw, out_state="cl", out_msg="cq")
    cl = reload("cl", "clogin", assign[4], POINTS[4])
    l2 = s.cmd("slogin_start", rng=rng, setup=S, file=None if fake else fh, req="cq", cred=cred, ctx=ctx, id_u=idu, id_s=ids, out_state="sl", out_msg="cr")
    nev[0] += 2
    if l1.failed or l2.failed:
        problems.append(("step failed", "login start", None, dict(l1) if l1.failed else dict(l2)))
        return None, nev[0]
    sl = reload("sl", "slogin", assign[5], POINTS[5])
    l3 = s.cmd("clogin_finish", state=cl, pw=pw, resp="cr", ctx=ctx, id_u=idu, id_s=ids, out="cf")
    nev[0] += 1
    out += [l1.msg, l1.state, l2.msg, l2.state]
    if fake:
        out.append("client:" + str(l3.get("err")))
        s.de("cfin", bytes(s.sz.nh), out="cf")
        l4 = s.cmd("slogin_finish", state=sl, fin="cf")
        out.append("server:" + str(l4.get("err")))
    else:
        if l3.failed:
            problems.append(("step failed", "client finish", None, dict(l3)))
            return None, nev[0]
        l4 = s.cmd("slogin_finish", state=sl, fin="cf")
        if l4.failed:
            problems.append(("step failed", "server finish", None, dict(l4)))
            return None, nev[0]
        out += [l3.msg, l3.session_key, l3.export_key, l3.server_s_pk, l4.session_key]
    nev[0] += 1
    s.cmd("clear")
    return out, nev[0]


def run_job(job):
    su, tier = job["suite"], job["tier"]
    rnd = proto.pyrng("c13", su, job["seed"])
    viol, samples = [], []
    stats = {"assignments": 0, "reloads": 0, "by_codec": {}, "by_point": {}, "baselines": 0}
    evals = 0
    seen = 0
    allas = list(itertools.product(CODECS, repeat=6))
    with okv.Session(su) as s:
        for wi, world in enumerate(WORLDS):
            wseed = proto.H("c13", su, job["seed"], wi)
            probs = []
            base, n = run_flow(s, su, wseed, world, (None,) * 6, probs)
            evals += n
            if base is None or probs:
                viol.append({"sig": "C13 control: uninterrupted baseline failed", "what": "%s world %s: %s" % (su, world[0], probs)})
                continue
            # the baseline is itself deterministic
            again, n = run_flow(s, su, wseed, world, (None,) * 6, probs)
            evals += n
            if again != base:
                viol.append({"sig": "C13 control: baseline is not reproducible", "what": "%s world %s" % (su, world[0])})
                continue
            stats["baselines"] += 1
            if tier == "thorough":
                todo = [a for i, a in enumerate(allas) if i % job["parts"] == job["part"] and any(a)]
            else:
                todo = []
                for p in range(6):
                    for c in CODECS[1:]:
                        a = [None] * 6
                        a[p] = c
                        todo.append(tuple(a))
                for c in CODECS[1:]:
                    todo.append((c,) * 6)
                todo += [a for a in rnd.sample(allas, 110) if any(a)][:96]
            for a in todo:
                probs = []
                got, n = run_flow(s, su, wseed, world, a, probs)
                evals += n
                stats["assignments"] += 1
                seen += 1
                for c in a:
                    if c:
                        stats["reloads"] += 1
                        stats["by_codec"][c] = stats["by_codec"].get(c, 0) + 1
                for p, c in zip(POINTS, a):
                    if c:
                        stats["by_point"][p] = stats["by_point"].get(p, 0) + 1
                desc = {"suite": su, "world": world[0], "assignment": dict(zip(POINTS, a))}
                for what, point, codec, extra in probs:
                    viol.append({"sig": "C13 %s (%s via %s)" % (what, point, codec), "what": "%s %s" % (desc, extra if extra else "")})
                if got is not None and got != base:
                    diff = [i for i in range(min(len(got), len(base))) if got[i] != base[i]]
                    names = ["setup", "reg_request", "creg_state", "reg_response", "upload", "export_key@reg", "server_s_pk@reg", "password_file", "KE1",
                             "clogin_state", "KE2", "slogin_state", "KE3/client-outcome", "session_key_c/server-outcome", "export_key@login", "server_s_pk@login", "session_key_s"]
                    first = names[diff[0]] if diff and diff[0] < len(names) else "length"
                    pts = "+".join("%s:%s" % (p, c) for p, c in zip(POINTS, a) if c)
                    viol.append({"sig": "C13 run differs from the uninterrupted baseline (first difference: %s; reloads %s)" % (first, pts if len(pts) < 60 else "several"),
                                 "what": "%s: outputs differing from baseline: %s; baseline %s; got %s" % (desc, [names[i] for i in diff if i < len(names)], str(base[diff[0]])[:120] if diff else "", str(got[diff[0]])[:120] if diff else "")})
                if len(samples) < 1 and got == base and sum(1 for c in a if c) >= 3:
                    samples.append(dict(desc, identical_to_baseline=True, compared_values=len(base)))
        # restore volume: the worlds above replay a few tapes under many reload assignments, so they see few DISTINCT states.
        # Here every iteration has its own tape: both in-flight login states are saved natively, restored, and the run is
        # completed with the restored copies next to an uninterrupted twin on the same tape
        bx = bytes.fromhex
        nvol = max(100, min(600, int(4000 / okv.suite_cost(su)))) * (1 if tier == "quick" else 5)
        rng = s.rng("v", proto.H("c13vol", su, job["seed"]))
        s.cmd("setup_new", rng=rng, out="VS")
        reg = proto.register(s, rng, "VS", b"volume-pw", b"vol", wire=False, tag="vg")
        if not reg.ok:
            viol.append({"sig": "C13 control: registration failed", "what": "%s: %s" % (su, reg.first_failure())})
            nvol = 0
        for i in range(nvol):
            outs = []
            for twin in ("restored", "uninterrupted"):
                rng = s.rng("v", proto.H("c13vol", su, job["seed"], i))
                a = s.cmd("clogin_start", rng=rng, pw=b"volume-pw", out_state="v.cl", out_msg="v.cq")
                b = s.cmd("slogin_start", rng=rng, setup="VS", file="vg.file", req="v.cq", cred=b"vol", out_state="v.sl", out_msg="v.cr")
                evals += 2
                if a.failed or b.failed:
                    viol.append({"sig": "C13 control: login start failed", "what": "%s: %s" % (su, [dict(x) for x in (a, b) if x.failed])})
                    break
                if twin == "restored":
                    for kind, h_, st_ in (("clogin", "v.cl", a.state), ("slogin", "v.sl", b.state)):
                        d = s.de(kind, bx(st_), out=h_)
                        evals += 1
                        stats["volume_restores"] = stats.get("volume_restores", 0) + 1
                        if not d.ok:
                            viol.append({"sig": "C13 state cannot be reloaded (%s via native)" % kind,
                                         "what": "%s: %s::deserialize refuses the bytes %s::serialize produced: %s -> %s" % (su, kind, kind, st_, d.get("err") or d.get("panic"))})
                        elif d.re != st_:
                            viol.append({"sig": "C13 state changes when reloaded (%s via native)" % kind, "what": "%s: %s -> %s" % (su, st_, d.re)})
                c = s.cmd("clogin_finish", state="v.cl", pw=b"volume-pw", resp="v.cr", out="v.cf")
                e = s.cmd("slogin_finish", state="v.sl", fin="v.cf") if c.ok else c
                evals += 2
                outs.append((a.msg, b.msg, c.get("msg"), c.get("session_key"), c.get("export_key"), e.get("session_key"), c.get("err"), e.get("err")))
            if len(outs) == 2 and outs[0] != outs[1]:
                viol.append({"sig": "C13 run differs from the uninterrupted baseline (restore volume)",
                             "what": "%s tape %d: restored %s uninterrupted %s" % (su, i, str(outs[0])[:300], str(outs[1])[:300])})
            seen += 1
    stats["suites"] = {su: stats["assignments"]}
    return {"evals": evals, "nontrivial": seen, "samples": samples, "violations": viol, "inconclusive": [], "stats": stats}


def floors(tier, stats, results):
    out = []
    missing = [x for x in okv.SUITES20 if stats.get("suites", {}).get(x, 0) < 4 * 100]
    if missing:
        out.append("fewer than 100 assignments per world for suites %s" % missing)
    if stats.get("volume_restores", 0) < 6000:
        out.append("fewer than 6000 native restores of distinct in-flight states")
    for p in POINTS:
        if stats.get("by_point", {}).get(p, 0) < 20 * 30:
            out.append("persistence point %s under-observed" % p)
    return out
