"""C08 - unregistered users are indistinguishable from registered ones.

Observed facts (concrete distinguishers only; computational unpredictability and timing are out of
reach of observation): same length/structure; the OPRF evaluation is the same function of (seed,
credential id, request) as for a registered user and as at registration (and equals the model's);
all other fields vary from attempt to attempt; the masked part is explained by a FRESH recorded
random key (never zero, never the previous one, never a real record's); the whole response equals
the model's KE2 for (fake key, that key, zero envelope); the client fails exactly as for a wrong
password; nothing completes the server side.
"""
from . import okv, proto
from .refmodel import selftest
from .refmodel.opaque import Opaque

LEVEL = "exploration"
RULE = ("per suite and identity/context configuration: N attempts against an unregistered identifier with the SAME "
        "request and with fresh requests, interleaved with real logins and wrong-password logins on the same setup; "
        "non-trivial = a fake response that decoded and was compared field by field against real responses, against "
        "the previous attempts and against the reference model; distinct = distinct (suite, configuration, attempt)")
ASSUMPTIONS = ["only the listed concrete distinguishers are checked; 'unpredictably' in the computational sense and timing equivalence are not decidable by observation",
               "reference model gated by RFC vectors (incl. the 3 RFC 9807 fake-record vectors)"]


def jobs(tier, seed):
    return [{"suite": su, "seed": seed, "tier": tier, "cost": okv.suite_cost(su)} for su in okv.SUITES20]


def split(sz, cresp):
    f = {}
    for name, off, ln, cls in sz.fields("cresp"):
        f[name] = cresp[off:off + ln]
    return f


def run_job(job):
    ok, detail = selftest.run()
    if not ok:
        return {"evals": 0, "nontrivial": 0, "samples": [], "violations": [], "inconclusive": [detail], "stats": {}}
    su, tier = job["suite"], job["tier"]
    rnd = proto.pyrng("c08", su, job["seed"])
    sz = okv.Sizes(su)
    m = Opaque(sz.oprf, sz.ke)
    viol, samples = [], []
    stats = {"fake_attempts": 0, "beta_equalities": 0, "explained_by_fresh_key": 0, "model_ke2_equal": 0, "client_invalid_login": 0,
             "server_rejections": 0, "constant_positions_checked": 0, "configs": 0}
    evals = 0
    bx = bytes.fromhex

    def V(sig, what):
        viol.append({"sig": "C08 " + sig, "what": "%s: %s" % (su, what)})

    with okv.Session(su) as s:
        configs = [(None, None, None), (b"uid", b"sid", b"ctx"), (None, b"sid", None), (b"uid", None, b"c2")]
        if tier == "quick":
            configs = configs[:3]
        for ci, (idu, ids, ctx) in enumerate(configs):
            wseed = proto.H("c08", su, job["seed"], ci)
            rng = s.rng("r", wseed)
            st = s.cmd("setup_new", rng=rng, out="S")
            setup = bx(st.ser)
            seed_, ssk, fsk = setup[:sz.nh], setup[sz.nh:sz.nh + sz.nsk], setup[sz.nh + sz.nsk:]
            spk, fpk = bx(st.pk), m.ke.pk_from_sk(fsk)
            cred = b"user-%d" % ci
            pw = b"pw-%d" % ci
            reg = proto.register(s, rng, "S", pw, cred, id_u=idu, id_s=ids, wire=False, tag="g")
            reg2 = proto.register(s, rng, "S", b"other-pw", b"someone-else", id_u=idu, id_s=ids, wire=False, tag="h")
            evals += 9
            if not (reg.ok and reg2.ok):
                V("control: registration failed", str(reg.first_failure()))
                continue
            real_mk = [bx(reg.rupl)[sz.npk:sz.npk + sz.nh], bx(reg2.rupl)[sz.npk:sz.npk + sz.nh]]
            stats["configs"] += 1
            # one client request, answered many times for the UNREGISTERED identifier `ghost` and for the real one
            cs = s.cmd("clogin_start", rng=rng, pw=pw, out_state="c.cl", out_msg="c.cq")
            creq = bx(cs.msg)
            ghost = b"ghost-%d" % ci
            N = 66 if tier == "quick" else 400
            fakes = []
            prev_key = None
            masked_cols = None
            for k in range(N):
                # interleave real traffic
                if k % 8 == 3:
                    proto.login(s, rng, rng, "S", "g.file", pw, cred, ctx_c=ctx, ctx_s=ctx, id_u_c=idu, id_s_c=ids, id_u_s=idu, id_s_s=ids, wire=False, tag="rl")
                    evals += 4
                same_req = (k % 3 != 2)
                if not same_req:
                    c2 = s.cmd("clogin_start", rng=rng, pw=pw, out_state="d.cl", out_msg="d.cq")
                    req_h, req_b, cl_h = "d.cq", bx(c2.msg), "d.cl"
                else:
                    req_h, req_b, cl_h = "c.cq", creq, "c.cl"
                r = s.cmd("slogin_start", rng=rng, setup="S", file=None, req=req_h, cred=ghost, ctx=ctx, id_u=idu, id_s=ids, out_state="f.sl", out_msg="f.cr")
                evals += 1
                stats["fake_attempts"] += 1
                if r.failed:
                    V("ServerLogin::start(None) failed", str(dict(r)))
                    continue
                fr = bx(r.msg)
                # (1) length and structure
                if len(fr) != sz.cresp:
                    V("fake response length differs from a real one", "%d vs %d" % (len(fr), sz.cresp))
                    continue
                d = s.de("cresp", fr, out="f.de")
                if not (d.ok and bx(d.re) == fr):
                    V("fake response does not decode / round-trip", str(dict(d)))
                    continue
                f = split(sz, fr)
                # (2) evaluation element: same function of (seed, id, request) as the real paths and as the model
                rr = s.cmd("slogin_start", rng=rng, setup="S", file="g.file", req=req_h, cred=ghost, ctx=ctx, id_u=idu, id_s=ids, out_state="x.sl", out_msg="x.cr")
                s.de("rreq", req_b[:sz.noe], out="x.rq")
                rg = s.cmd("sreg_start", setup="S", req="x.rq", cred=ghost, out="x.rr")
                evals += 3
                beta_model = m.oprf.G.encode_elem(m.oprf.blind_evaluate(m.oprf_key(seed_, ghost), m.oprf.G.decode_elem(req_b[:sz.noe])))
                betas = {"fake": f["evaluated"], "real-record": bx(rr.msg)[:sz.noe], "registration": bx(rg.msg)[:sz.noe], "model": beta_model}
                if len(set(betas.values())) != 1:
                    V("evaluation element of the fake path differs", str({k_: v.hex() for k_, v in betas.items()}))
                else:
                    stats["beta_equalities"] += 1
                # (4) masked part explained by a fresh recorded Nh-byte key; not by zero / previous / real keys
                draws = []
                dd = r.get("draws")
                pos = dd["pos"]
                for ln in dd["lens"]:
                    draws.append(okv.stream_bytes(wseed, b"", pos, ln))
                    pos += ln
                plain = fpk_env = spk + bytes(32 + sz.nm)
                key = None
                for dkey in draws:
                    if len(dkey) == sz.nh and m.mask(dkey, f["masking_nonce"], spk, bytes(32 + sz.nm)) == f["masked"]:
                        key = dkey
                        break
                if key is None:
                    V("fake masked response is not pad(fresh recorded key, nonce) xor (server_pk || zero envelope)", "attempt %d masked %s" % (k, f["masked"].hex()))
                else:
                    stats["explained_by_fresh_key"] += 1
                    if key == bytes(sz.nh) or key == prev_key or key in real_mk:
                        V("fake masking key is constant / reused / a real record's", key.hex())
                    prev_key = key
                for bad_key, nm in [(bytes(sz.nh), "all-zero key")] + [(x, "a real record's masking key") for x in real_mk]:
                    if m.mask(bad_key, f["masking_nonce"], spk, bytes(32 + sz.nm)) == f["masked"]:
                        V("fake masked response is explained by %s" % nm, f["masked"].hex())
                # whole response = model's KE2 for (fake pk, key, zero envelope)
                if key is not None:
                    sesk = None
                    for dkey in draws:
                        if len(dkey) == sz.nsk and m.ke.derive_dh_keypair(m.oprf, dkey)[1] == f["server_e_pk"]:
                            sesk = m.ke.derive_dh_keypair(m.oprf, dkey)[0]
                    if sesk is None:
                        V("server ephemeral key of a fake response is not derived from a recorded draw", f["server_e_pk"].hex())
                    else:
                        ke2, state_m, _ = m.ke2(seed_, ghost, ssk, spk, (fpk, key, bytes(32 + sz.nm)), req_b, f["masking_nonce"], f["server_nonce"], sesk,
                                                f["server_e_pk"], ctx or b"", idu, ids)
                        if ke2 != fr:
                            V("fake response differs from the specification's fake KE2 (same structure as a real one)", "got %s want %s" % (fr.hex(), ke2.hex()))
                        elif bx(r.state) != state_m:
                            V("fake pending state differs from the specification", "got %s want %s" % (r.state, state_m.hex()))
                        else:
                            stats["model_ke2_equal"] += 1
                if same_req:
                    fakes.append(f)
                    if masked_cols is None:
                        masked_cols = [set() for _ in range(len(f["masked"]))]
                    for i_, b_ in enumerate(f["masked"]):
                        masked_cols[i_].add(b_)
                # (5) the client fails as for a wrong password
                cf = s.cmd("clogin_finish", state=cl_h, pw=pw, resp="f.de", ctx=ctx, id_u=idu, id_s=ids, out="f.cf")
                evals += 1
                if cf.ok:
                    V("client accepted a fake response", "attempt %d" % k)
                elif cf.err != "InvalidLoginError":
                    V("client error for a fake record is %s" % cf.err, "attempt %d" % k)
                else:
                    stats["client_invalid_login"] += 1
                # (6) nothing completes the server side
                if k % 6 == 0:
                    ht = bx(r.state)[sz.nh:2 * sz.nh]      # Hash(preamble || server_mac): computable from public data alone
                    offers = [bytes(sz.nh), b"\xff" * sz.nh, bytes(rnd.randrange(256) for _ in range(sz.nh)), bx(r.state)[:sz.nh], ht, bx(r.state)[2 * sz.nh:],
                              m.H.hmac(ht, ht), m.H.hmac(bytes(sz.nh), ht), m.H.hmac(ht, b""), m.H.hmac(fr[-sz.nh:], ht), m.H.digest(ht)]
                    for fin in offers:
                        s.de("cfin", fin, out="f.f")
                        sf = s.cmd("slogin_finish", state="f.sl", fin="f.f")
                        evals += 1
                        if sf.ok:
                            V("a finalization completed the server side of a fake session", fin.hex())
                        elif sf.err == "InvalidLoginError":
                            stats["server_rejections"] += 1
                        else:
                            V("server finish error %s on a fake session" % sf.err, fin.hex())
                if len(samples) < 1 and key is not None:
                    samples.append({"suite": su, "config": ci, "attempt": k, "fake_response": fr.hex()[:96] + "...", "masking_key_is_recorded_draw": True,
                                    "beta_equal_on": sorted(betas), "client_outcome": cf.err})
            # "for all requests": well-formed requests built from public values must be answered alike with and without a record
            cpk_user = bx(reg.rupl)[:sz.npk]
            c3 = s.cmd("clogin_start", rng=rng, pw=b"x", out_state="e.cl", out_msg="e.cq")
            other = bx(c3.msg)
            crafted = {"client_e_pk := the user's registered public key": creq[:sz.noe + 32] + cpk_user,
                       "client_e_pk := the server's public key": creq[:sz.noe + 32] + spk,
                       "client_e_pk := the other registered user's key": creq[:sz.noe + 32] + bx(reg2.rupl)[:sz.npk],
                       "blinded element of another request, own key share": other[:sz.noe] + creq[sz.noe:],
                       "all-zero client nonce": creq[:sz.noe] + bytes(32) + creq[sz.noe + 32:],
                       "client nonce := 0xff..": creq[:sz.noe] + b"\xff" * 32 + creq[sz.noe + 32:]}
            for what, rb in crafted.items():
                d = s.de("creq", rb, out="k.cq")
                evals += 1
                if not d.ok:
                    V("control: crafted request does not decode", "%s: %s" % (what, d.err))
                    continue
                outs = {}
                for lab, fh, cid in (("registered user", "g.file", cred), ("unregistered user", None, ghost)):
                    r = s.cmd("slogin_start", rng=rng, setup="S", file=fh, req="k.cq", cred=cid, ctx=ctx, id_u=idu, id_s=ids, out_state="k.sl", out_msg="k.cr")
                    evals += 1
                    outs[lab] = ("ok", len(r.msg) // 2) if r.ok else ("err", r.get("err"))
                stats["crafted_requests"] = stats.get("crafted_requests", 0) + 1
                if outs["registered user"] != outs["unregistered user"] or outs["registered user"][0] != "ok":
                    V("a well-formed request is answered differently for a registered and an unregistered user", "%s: %s" % (what, outs))
            # (3) variability over the attempts with the same request and identifier
            for nm in ("masking_nonce", "masked", "server_nonce", "server_e_pk", "server_mac"):
                vals = [f_[nm] for f_ in fakes]
                if len(set(vals)) != len(vals):
                    V("field %s repeats across fake attempts with the same request" % nm, "%d attempts, %d distinct" % (len(vals), len(set(vals))))
            if len(fakes) >= 40 and masked_cols:
                stats["constant_positions_checked"] += len(masked_cols)
                const = [i_ for i_, c_ in enumerate(masked_cols) if len(c_) == 1]
                if const:
                    V("byte positions of the fake masked response are constant across attempts", "positions %s over %d attempts" % (const[:20], len(fakes)))
            # wrong-password control: same error value as the fake path
            wp = proto.login(s, rng, rng, "S", "g.file", b"not the password", cred, ctx_c=ctx, ctx_s=ctx, id_u_c=idu, id_s_c=ids, id_u_s=idu, id_s_s=ids, wire=False, tag="wp")
            evals += 3
            if wp.failed_at != "clogin_finish" or wp.clogin_finish.err != "InvalidLoginError":
                V("control: wrong password does not give InvalidLoginError", str(wp.first_failure()))
            # two setups built with the same server key pair have unrelated fake keys and OPRF seeds
            a1 = s.cmd("setup_new_with_key", rng=rng, sk=ssk, out="T1")
            a2 = s.cmd("setup_new_with_key", rng=rng, sk=ssk, out="T2")
            evals += 2
            if a1.ok and a2.ok:
                t1, t2 = bx(a1.ser), bx(a2.ser)
                if t1[sz.nh + sz.nsk:] == t2[sz.nh + sz.nsk:] or t1[:sz.nh] == t2[:sz.nh]:
                    V("fake key pair / OPRF seed repeat across setups with the same server key", "%s vs %s" % (a1.ser, a2.ser))
            s.cmd("clear")
    stats["suites"] = {su: stats["fake_attempts"]}
    return {"evals": evals, "nontrivial": stats["fake_attempts"], "samples": samples, "violations": viol, "inconclusive": [], "stats": stats}


def floors(tier, stats, results):
    out = []
    missing = [x for x in okv.SUITES20 if stats.get("suites", {}).get(x, 0) < 150]
    if missing:
        out.append("fewer than 150 fake attempts for suites %s" % missing)
    if stats.get("model_ke2_equal", 0) < 0.9 * stats.get("fake_attempts", 1):
        out.append("fewer than 90% of fake responses were compared with the model")
    return out
