"""C03 - the server completes login only on the matching client finalization.

Refuting event: ServerLogin::finish(state, m) returns Ok for m != the KE3 produced by the client
run that accepted this state's own response (or Err on that one, or a different key), or a
rejection is not InvalidLoginError. Exhaustive single-bit / single-byte substitutions.
"""
from . import okv, proto

LEVEL = "fault_enumeration"
RULE = ("per suite, pending server states of 4 kinds (real record + right password, real record + wrong-password "
        "client, absent record, state reloaded through serialize/deserialize); for each: ALL single-bit flips and "
        "single-byte substitutions of the genuine KE3 (or of zero / random strings where no genuine one exists), KE3s "
        "of every other session of the world, constants, random strings, wrong-length strings; non-trivial = a "
        "finalization different from the matching one that reached ServerLogin::finish; distinct = distinct "
        "(suite, state, bytes)")
ASSUMPTIONS = ["substitution enumeration is exhaustive per pending state in both tiers (all 255 values at every offset, all bit flips); "
               "the space of ALL byte strings of the finalization length is only sampled (other sessions, constants, random)"]
EXHAUSTIVE = {"quick": "all Nh*8 single-bit flips and all Nh*255 single-byte substitutions of the base finalization, per pending state (7 states x 20 suites)",
              "thorough": "all Nh*8 single-bit flips and all Nh*255 single-byte substitutions of the base finalization, per pending state (84 states x 20 suites)"}


def jobs(tier, seed):
    return [{"suite": su, "seed": seed, "tier": tier, "cost": okv.suite_cost(su)} for su in okv.SUITES20]


def run_job(job):
    su, tier = job["suite"], job["tier"]
    rnd = proto.pyrng("c03", su, job["seed"])
    viol, samples = [], []
    stats = {"states": 0, "offered": 0, "rejected_invalid_login": 0, "accepted_matching": 0, "by_kind": {}, "cross_session": 0, "wrong_length": 0}
    evals = 0
    nontriv = 0
    with okv.Session(su) as s:
        nh = s.sz.nh
        nworlds = 1 if tier == "quick" else 12
        for wi in range(nworlds):
            rng = s.rng("r", proto.H("c03", su, job["seed"], wi))
            s.cmd("setup_new", rng=rng, out="S")
            users = []
            for ui, (pw, cred) in enumerate([(b"pw-alice", b"alice"), (b"pw-bob", b"bob")]):
                reg = proto.register(s, rng, "S", pw, cred, wire=False, tag="u%d" % ui)
                if not reg.ok:
                    viol.append({"sig": "C03 control: registration failed", "what": str(reg.first_failure())})
                    continue
                users.append((pw, cred, reg.file_h))
            if len(users) < 2:
                continue
            sessions = []  # (kind, state handle, genuine fin bytes or None, expected key)
            # real + right password (two sessions of alice, one of bob, one with context)
            for k, (ui, ctx) in enumerate([(0, None), (0, None), (1, None), (0, b"ctx")]):
                pw, cred, fh = users[ui]
                lg = proto.login(s, rng, rng, "S", fh, pw, cred, ctx_c=ctx, ctx_s=ctx, wire=False, tag="r%d" % k, do_server_finish=False)
                if not lg.ok:
                    viol.append({"sig": "C03 control: honest login failed", "what": str(lg.first_failure())})
                    continue
                sessions.append(("real-right", "r%d.sl" % k, bytes.fromhex(lg.cfin), lg.session_key_c))
            # reloaded state
            if sessions:
                st = s.ser(sessions[0][1]).data
                s.de("slogin", bytes.fromhex(st), out="rl.sl")
                sessions.append(("reloaded", "rl.sl", sessions[0][2], sessions[0][3]))
            # real record, wrong-password client
            lg = proto.login(s, rng, rng, "S", users[0][2], b"not-the-password", users[0][1], wire=False, tag="w0")
            if lg.failed_at == "clogin_finish":
                sessions.append(("real-wrongpw", "w0.sl", None, None))
            # absent record
            lg = proto.login(s, rng, rng, "S", None, users[0][0], b"nobody", wire=False, tag="f0")
            if lg.failed_at == "clogin_finish":
                sessions.append(("fake-record", "f0.sl", None, None))
            all_fins = [x[2] for x in sessions if x[2] is not None]
            for kind, sh, genuine, key in sessions:
                stats["states"] += 1
                bk = stats["by_kind"].setdefault(kind, {"offered": 0, "accepted": 0})
                bases = [genuine] if genuine is not None else [bytes(nh), bytes(rnd.randrange(256) for _ in range(nh))]
                if genuine is not None:
                    # the matching one is accepted, with the client's key
                    s.de("cfin", genuine, out="g.f")
                    r = s.cmd("slogin_finish", state=sh, fin="g.f")
                    evals += 1
                    if not r.ok or r.session_key != key:
                        viol.append({"sig": "C03 matching finalization rejected or wrong key", "what": "%s %s: %s (client key %s)" % (su, kind, dict(r), key)})
                    else:
                        stats["accepted_matching"] += 1
                else:
                    for b in bases:
                        s.de("cfin", b, out="b.f")
                        r = s.cmd("slogin_finish", state=sh, fin="b.f")
                        evals += 1
                        bk["offered"] += 1
                        if r.ok:
                            viol.append({"sig": "C03 %s state accepted a constant/random finalization" % kind, "what": "%s: %s accepted" % (su, b.hex())})
                for base in bases:
                    vals = "all"
                    r = s.cmd("sweep_sfin", state=sh, base=base, vals=vals, bits=True)
                    out = r.bits + r.bytes
                    n = len(out) - out.count(".")
                    evals += n
                    nontriv += n
                    stats["offered"] += n
                    bk["offered"] += n
                    stats["rejected_invalid_login"] += out.count("L")
                    for a in r.accepted:
                        bk["accepted"] += 1
                        if "panic" in a:
                            viol.append({"sig": "C03 server finish panicked", "what": "%s %s case %s: %s" % (su, kind, a["case"], a["panic"])})
                        else:
                            viol.append({"sig": "C03 altered finalization accepted (%s state, %s)" % (kind, a["case"][0]),
                                         "what": "%s: ServerLogin::finish accepted base %s altered by %s; key %s" % (su, base.hex(), a["case"], a.get("key")),
                                         "base": base.hex(), "case": a["case"]})
                    for code, cnt in r.others.items():
                        viol.append({"sig": "C03 rejection with %s instead of InvalidLoginError" % code, "what": "%s %s: %d cases" % (su, kind, cnt)})
                    if len(samples) < 1:
                        samples.append({"suite": su, "state_kind": kind, "base_finalization": base.hex(), "substitutions": n,
                                        "outcomes": {"InvalidLoginError": out.count("L"), "accepted": out.count("A")}})
                # multi-byte alterations whose differences cancel under weak comparisons (xor-fold, sum, prefix/suffix
                # only, every-other-byte): same mask in two bytes, byte swaps, rotations, reversal, halves swapped
                multi = []
                base0 = bases[0]
                for i in range(nh):
                    for j in range(i + 1, nh):
                        if tier == "thorough" or (i + j) % 5 == 0 or j == i + 1:
                            b = bytearray(base0)
                            b[i] ^= 0x01
                            b[j] ^= 0x01
                            multi.append(bytes(b))
                            if base0[i] != base0[j]:
                                b = bytearray(base0)
                                b[i], b[j] = b[j], b[i]
                                multi.append(bytes(b))
                for k in range(1, nh):
                    multi.append(base0[k:] + base0[:k])
                    multi.append(base0[:k] + bytes(x ^ 0xff for x in base0[k:]))
                    multi.append(bytes(x ^ 0xff for x in base0[:k]) + base0[k:])
                multi.append(base0[::-1])
                # tags anybody can compute from public data: the state's transcript hash (bytes [Nh, 2Nh)) used as key and/or message
                import hashlib, hmac as _hmac
                hname = {32: "sha256", 48: "sha384", 64: "sha512"}[nh]
                stb = bytes.fromhex(s.ser(sh).data)
                ht_ = stb[nh:2 * nh]
                for k_, m_ in ((ht_, ht_), (bytes(nh), ht_), (ht_, b""), (ht_, stb[2 * nh:]), (stb[2 * nh:], ht_)):
                    multi.append(_hmac.new(k_, m_, hname).digest())
                multi.append(hashlib.new(hname, ht_).digest())
                multi.append(bytes(x ^ 0xff for x in base0))
                multi.append(bytes(x ^ 0xaa if i % 2 else x for i, x in enumerate(base0)))
                multi = [x for x in dict.fromkeys(multi) if x != genuine]
                stats["multi_byte"] = stats.get("multi_byte", 0) + len(multi)
                # finalizations from every other session, constants, random, wrong length
                others = multi + [f for f in all_fins if f != genuine] + [bytes(nh), b"\xff" * nh] + [bytes(rnd.randrange(256) for _ in range(nh)) for _ in range(50 if tier == "quick" else 1000)]
                for f in others:
                    s.de("cfin", f, out="o.f")
                    r = s.cmd("slogin_finish", state=sh, fin="o.f")
                    evals += 1
                    nontriv += 1
                    stats["offered"] += 1
                    bk["offered"] += 1
                    if f in all_fins:
                        stats["cross_session"] += 1
                    if r.ok:
                        bk["accepted"] += 1
                        viol.append({"sig": "C03 foreign finalization accepted (%s state)" % kind,
                                     "what": "%s: state %s accepted %s (%s)" % (su, sh, f.hex(), "another session's KE3" if f in all_fins else "constant/random")})
                    elif r.err != "InvalidLoginError":
                        viol.append({"sig": "C03 rejection with %s instead of InvalidLoginError" % r.err, "what": "%s %s" % (su, kind)})
                    else:
                        stats["rejected_invalid_login"] += 1
                for ln in (0, 1, nh - 1, nh + 1, 2 * nh):
                    d = s.de("cfin", bytes(ln), out="x.f")
                    evals += 1
                    stats["wrong_length"] += 1
                    if d.ok:
                        viol.append({"sig": "C03 wrong-length finalization decoded", "what": "%s len %d" % (su, ln)})
            s.cmd("clear")
    stats["suites"] = {su: stats["states"]}
    return {"evals": evals, "nontrivial": nontriv, "samples": samples, "violations": viol, "inconclusive": [], "stats": stats}


def floors(tier, stats, results):
    out = []
    for k in ("real-right", "reloaded", "real-wrongpw", "fake-record"):
        if stats.get("by_kind", {}).get(k, {}).get("offered", 0) < 20 * 500:
            out.append("state kind %s: fewer than 500 finalizations per suite offered" % k)
    if stats.get("accepted_matching", 0) < 20 * 4:
        out.append("fewer than 4 matching finalizations per suite accepted (positive control)")
    return out
