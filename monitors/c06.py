"""C06 - the password file is bound to the server's static key.

Refuting event: the server public key reported at registration or at a successful login differs
from the setup's public key (and from the model's sk*G); or a login served by a setup that has
the SAME OPRF seed and the stolen record but ANOTHER static key pair succeeds at the client.
"""
from . import okv, proto
from .refmodel import selftest
from .refmodel.groups import KeGroupModel

LEVEL = "exploration"
RULE = ("per suite and identity configuration {none, client-only, server-only, both explicit, 300/257-byte identities, empty strings} x context: setup A, records "
        "registered under A; impostor setups B = deserialize(seed_A || sk_X || fake_X) for sk_X in {fresh, another real "
        "server's, A's own fake key, A's key with fake:=A's key (control)}; every record is served under every B with "
        "the server identity kept explicit (so only the key can differ) and with defaults; non-trivial = a login under "
        "an impostor setup whose control under A was accepted; distinct = distinct (suite, world, record, impostor, ids)")
ASSUMPTIONS = ["impostor holds the correct OPRF seed and the stolen password file (the property's adversary)",
               "server public key recomputed independently by the reference model"]


def jobs(tier, seed):
    return [{"suite": su, "seed": seed, "tier": tier, "cost": okv.suite_cost(su)} for su in okv.SUITES20]


def run_job(job):
    ok, detail = selftest.run()
    if not ok:
        return {"evals": 0, "nontrivial": 0, "samples": [], "violations": [], "inconclusive": [detail], "stats": {}}
    su, tier = job["suite"], job["tier"]
    rnd = proto.pyrng("c06", su, job["seed"])
    sz = okv.Sizes(su)
    ke = KeGroupModel(sz.ke)
    viol, samples = [], []
    stats = {"controls": 0, "impostor_logins": 0, "rejected": 0, "pk_equalities": 0, "by_ids": {}, "by_impostor": {}, "err_hist": {}}
    evals = 0
    seen = set()
    with okv.Session(su) as s:
        nworlds = 2 if tier == "quick" else 60
        for wi in range(nworlds):
            rng = s.rng("r", proto.H("c06", su, job["seed"], wi))
            a = s.cmd("setup_new", rng=rng, out="A")
            o = s.cmd("setup_new", rng=rng, out="O")      # another real server
            evals += 2
            A = bytes.fromhex(a.ser)
            O = bytes.fromhex(o.ser)
            seed_a, sk_a, fk_a = A[:sz.nh], A[sz.nh:sz.nh + sz.nsk], A[sz.nh + sz.nsk:]
            spk = bytes.fromhex(a.pk)
            if ke.pk_from_sk(sk_a) != spk:
                viol.append({"sig": "C06 setup public key != sk*G", "what": "%s: keypair().public() %s, model %s" % (su, spk.hex(), ke.pk_from_sk(sk_a).hex())})
            fresh = s.cmd("setup_new", rng=rng, out="F")
            F = bytes.fromhex(fresh.ser)
            impostors = {
                "fresh-key": seed_a + F[sz.nh:sz.nh + sz.nsk] + F[sz.nh + sz.nsk:],
                "other-servers-key": seed_a + O[sz.nh:sz.nh + sz.nsk] + O[sz.nh + sz.nsk:],
                "own-fake-key": seed_a + fk_a + sk_a,
                "fresh-key-same-fake": seed_a + F[sz.nh:sz.nh + sz.nsk] + fk_a,
            }
            for nm, b in impostors.items():
                r = s.de("setup", b, out="B:" + nm)
                evals += 1
                if not r.ok:
                    viol.append({"sig": "C06 control: impostor setup bytes rejected", "what": "%s %s: %s" % (su, nm, r.err)})
            # same key, other fake key and a reload: must behave exactly like A (control for the mechanism)
            s.de("setup", seed_a + sk_a + F[sz.nh + sz.nsk:], out="A2")
            long_u, long_s = b"U" * 300, b"S" * 257
            for idu, ids, ctx, lab in [(None, None, None, "none"), (b"client-id", None, None, "client-only"), (None, b"server-id", b"c", "server-only"),
                                       (b"client-id", b"server-id", None, "both"), (long_u, None, None, "long-client-only"), (None, long_s, None, "long-server-only"),
                                       (long_u, long_s, b"x" * 300, "long-both"), (b"", b"", b"", "empty-strings"),
                                       (None, spk, None, "server-id-is-its-key"), (b"u", bytes.fromhex(o.pk), None, "server-id-is-another-key"),
                                       (spk, spk, None, "both-ids-are-the-server-key")]:
                pw, cred = b"pw-%d" % wi, b"user-%d" % rnd.randrange(1000)
                reg = proto.register(s, rng, "A", pw, cred, id_u=idu, id_s=ids, wire=False, tag="g")
                evals += 4
                if not reg.ok:
                    viol.append({"sig": "C06 control: registration failed", "what": "%s %s: %s" % (su, lab, reg.first_failure())})
                    continue
                if bytes.fromhex(reg.server_s_pk) != spk:
                    viol.append({"sig": "C06 registration reports a server key other than the setup's", "what": "%s %s: %s vs %s" % (su, lab, reg.server_s_pk, spk.hex())})
                stats["pk_equalities"] += 1
                for srv in ("A", "A2"):
                    good = proto.login(s, rng, rng, srv, "g.file", pw, cred, ctx_c=ctx, ctx_s=ctx, id_u_c=idu, id_s_c=ids, id_u_s=idu, id_s_s=ids, wire=False, tag="ok")
                    evals += 4
                    if not good.ok:
                        viol.append({"sig": "C06 control: login under the genuine setup failed", "what": "%s %s %s: %s" % (su, lab, srv, good.first_failure())})
                        continue
                    stats["controls"] += 1
                    stats["pk_equalities"] += 1
                    if bytes.fromhex(good.server_s_pk) != spk:
                        viol.append({"sig": "C06 login reports a server key other than the setup's", "what": "%s %s: %s vs %s" % (su, lab, good.server_s_pk, spk.hex())})
                for nm in impostors:
                    # the impostor keeps the identity strings the client expects; with default server identity the client
                    # side uses its own view (absent), the impostor likewise
                    variants = [(idu, ids, ids)]
                    if ids is None:
                        variants.append((idu, None, spk))      # impostor spells out the genuine server key as identity
                    for vu, vs_c, vs_s in variants:
                        lg = proto.login(s, rng, rng, "B:" + nm, "g.file", pw, cred, ctx_c=ctx, ctx_s=ctx, id_u_c=vu, id_s_c=vs_c, id_u_s=vu, id_s_s=vs_s,
                                         wire=False, tag="im")
                        evals += 3
                        stats["impostor_logins"] += 1
                        stats["by_ids"][lab] = stats["by_ids"].get(lab, 0) + 1
                        stats["by_impostor"][nm] = stats["by_impostor"].get(nm, 0) + 1
                        seen.add((wi, lab, nm, vs_s is not None))
                        case = {"suite": su, "world": wi, "ids": lab, "impostor": nm, "server_identity_param": proto.short(vs_s), "ctx": proto.short(ctx)}
                        if lg.ok:
                            viol.append({"sig": "C06 login under an impostor static key accepted (%s, ids %s)" % (nm, lab),
                                         "what": "client accepted a server holding the OPRF seed and the stolen file but another static key: %s; reported server_s_pk %s, genuine %s" % (
                                             case, lg.server_s_pk, spk.hex())})
                        elif lg.failed_at != "clogin_finish":
                            viol.append({"sig": "C06 impostor login failed before the client finish", "what": "%s: %s" % (case, lg.first_failure())})
                        else:
                            stats["rejected"] += 1
                            e = lg.clogin_finish.err
                            stats["err_hist"][e] = stats["err_hist"].get(e, 0) + 1
                            if len(samples) < 2:
                                samples.append(dict(case, outcome=e))
            s.cmd("clear")
    stats["suites"] = {su: stats["impostor_logins"]}
    return {"evals": evals, "nontrivial": len(seen), "samples": samples, "violations": viol, "inconclusive": [], "stats": stats}


def floors(tier, stats, results):
    out = []
    missing = [x for x in okv.SUITES20 if stats.get("suites", {}).get(x, 0) < 30]
    if missing:
        out.append("fewer than 30 impostor logins for suites %s" % missing)
    for k in ("none", "client-only", "server-only", "both", "long-client-only", "long-server-only", "long-both", "empty-strings", "server-id-is-its-key", "server-id-is-another-key", "both-ids-are-the-server-key"):
        if stats.get("by_ids", {}).get(k, 0) < 100:
            out.append("identity configuration %s under-observed" % k)
    return out
