"""OPAQUE-3DH (RFC 9807) over any OPRF suite x key-exchange group, as a set of pure functions."""
from .groups import KeGroupModel, OprfSuite
from .hashes import I2OSP

NN = 32


def xor(a, b):
    assert len(a) == len(b)
    return bytes(x ^ y for x, y in zip(a, b))


class Opaque:
    def __init__(self, oprf_key, ke_key, ksf=None):
        self.oprf = OprfSuite(oprf_key)
        self.ke = KeGroupModel(ke_key)
        self.H = self.oprf.H
        self.nh = self.H.out
        self.nm = self.nh
        self.npk, self.nsk = self.ke.npk, self.ke.nsk
        self.noe, self.ns = self.oprf.noe, self.oprf.ns
        self.nseed = self.nsk          # the implementation's seed length = Nsk (32 for the RFC suites)
        self.ksf = ksf or (lambda x: x)

    # ------------------------------------------------------------------ key schedule pieces
    def oprf_key(self, oprf_seed, cred_id):
        seed = self.H.expand(oprf_seed, cred_id + b"OprfKey", self.ns)
        return self.oprf.derive_key_pair(seed, b"OPAQUE-DeriveKeyPair")

    def randomized_pwd(self, oprf_output, ksf=None):
        ksf = ksf or self.ksf
        return self.H.extract(b"", oprf_output + ksf(oprf_output))

    def masking_key(self, rpwd):
        return self.H.expand(rpwd, b"MaskingKey", self.nh)

    def idents(self, client_pk, server_pk, id_u, id_s):
        return (client_pk if id_u is None else id_u), (server_pk if id_s is None else id_s)

    def envelope(self, rpwd, nonce, server_pk, id_u=None, id_s=None):
        """Store(): returns (envelope bytes, client_public_key, masking_key, export_key, client_sk)"""
        auth_key = self.H.expand(rpwd, nonce + b"AuthKey", self.nh)
        export_key = self.H.expand(rpwd, nonce + b"ExportKey", self.nh)
        seed = self.H.expand(rpwd, nonce + b"PrivateKey", self.nseed)
        csk, cpk = self.ke.derive_dh_keypair(self.oprf, seed)
        cu, cs = self.idents(cpk, server_pk, id_u, id_s)
        cleartext = server_pk + I2OSP(len(cs), 2) + cs + I2OSP(len(cu), 2) + cu
        tag = self.H.hmac(auth_key, nonce + cleartext)
        return nonce + tag, cpk, self.masking_key(rpwd), export_key, csk

    def mask(self, masking_key, masking_nonce, server_pk, envelope):
        pad = self.H.expand(masking_key, masking_nonce + b"CredentialResponsePad", self.npk + NN + self.nm)
        return xor(pad, server_pk + envelope)

    def expand_label(self, secret, label, context, length):
        custom = I2OSP(length, 2) + I2OSP(len(b"OPAQUE-" + label), 1) + b"OPAQUE-" + label + I2OSP(len(context), 1) + context
        return self.H.expand(secret, custom, length)

    def preamble(self, context, id_u, ke1, id_s, cred_response, server_nonce, server_epk):
        return (b"OPAQUEv1-" + I2OSP(len(context), 2) + context + I2OSP(len(id_u), 2) + id_u + ke1 +
                I2OSP(len(id_s), 2) + id_s + cred_response + server_nonce + server_epk)

    def derive_keys(self, ikm, preamble):
        prk = self.H.extract(b"", ikm)
        ph = self.H.digest(preamble)
        hs = self.expand_label(prk, b"HandshakeSecret", ph, self.nh)
        sk = self.expand_label(prk, b"SessionKey", ph, self.nh)
        km2 = self.expand_label(hs, b"ServerMAC", b"", self.nh)
        km3 = self.expand_label(hs, b"ClientMAC", b"", self.nh)
        return km2, km3, sk, hs

    # ------------------------------------------------------------------ whole messages
    def registration_request(self, pw, blind):
        return self.oprf.G.encode_elem(self.oprf.blind(pw, blind))

    def registration_response(self, oprf_seed, cred_id, request, server_pk):
        k = self.oprf_key(oprf_seed, cred_id)
        ev = self.oprf.blind_evaluate(k, self.oprf.G.decode_elem(request))
        return self.oprf.G.encode_elem(ev) + server_pk

    def registration_upload(self, pw, blind, response, env_nonce, id_u=None, id_s=None, ksf=None):
        ev = self.oprf.G.decode_elem(response[:self.noe])
        server_pk = response[self.noe:]
        out = self.oprf.finalize(pw, blind, ev)
        rpwd = self.randomized_pwd(out, ksf)
        env, cpk, mk, export_key, _ = self.envelope(rpwd, env_nonce, server_pk, id_u, id_s)
        return cpk + mk + env, export_key, out

    def ke1(self, pw, blind, client_nonce, client_epk):
        return self.registration_request(pw, blind) + client_nonce + client_epk

    def ke2(self, oprf_seed, cred_id, server_sk, server_pk, record, ke1, masking_nonce, server_nonce, server_esk,
            server_epk, context=b"", id_u=None, id_s=None):
        """record = (client_pk, masking_key, envelope). returns (ke2 bytes, server state bytes, session_key)"""
        cpk, mk, env = record
        k = self.oprf_key(oprf_seed, cred_id)
        ev = self.oprf.G.encode_elem(self.oprf.blind_evaluate(k, self.oprf.G.decode_elem(ke1[:self.noe])))
        masked = self.mask(mk, masking_nonce, server_pk, env)
        cred_response = ev + masking_nonce + masked
        cu, cs = self.idents(cpk, server_pk, id_u, id_s)
        pre = self.preamble(context, cu, ke1, cs, cred_response, server_nonce, server_epk)
        client_epk = ke1[self.noe + NN:]
        ikm = self.ke.dh(server_esk, client_epk) + self.ke.dh(server_sk, client_epk) + self.ke.dh(server_esk, cpk)
        km2, km3, sk, _ = self.derive_keys(ikm, pre)
        mac = self.H.hmac(km2, self.H.digest(pre))
        expected_client_mac_input = self.H.digest(pre + mac)
        state = km3 + expected_client_mac_input + sk
        return cred_response + server_nonce + server_epk + mac, state, sk

    def client_finish(self, pw, blind, ke1, client_esk, ke2, context=b"", id_u=None, id_s=None, ksf=None):
        """returns dict(ok, reason | ke3, session_key, export_key, server_pk)"""
        noe, npk, nh = self.noe, self.npk, self.nh
        ev = self.oprf.G.decode_elem(ke2[:noe])
        masking_nonce = ke2[noe:noe + NN]
        masked = ke2[noe + NN:noe + NN + npk + NN + self.nm]
        rest = ke2[noe + NN + npk + NN + self.nm:]
        server_nonce, server_epk, server_mac = rest[:NN], rest[NN:NN + npk], rest[NN + npk:]
        out = self.oprf.finalize(pw, blind, ev)
        rpwd = self.randomized_pwd(out, ksf)
        mk = self.masking_key(rpwd)
        plain = self.mask(mk, masking_nonce, b"\x00" * npk, b"\x00" * (NN + self.nm))
        plain = xor(plain, masked)
        server_pk, env = plain[:npk], plain[npk:]
        if not self.ke.valid_pk(server_pk) and self.ke.key != "x25519":
            return {"ok": False, "reason": "server public key does not decode"}
        env2, cpk, _, export_key, csk = self.envelope(rpwd, env[:NN], server_pk, id_u, id_s)
        if env2 != env:
            return {"ok": False, "reason": "envelope tag mismatch"}
        cu, cs = self.idents(cpk, server_pk, id_u, id_s)
        pre = self.preamble(context, cu, ke1, cs, ke2[:noe + NN + npk + NN + self.nm], server_nonce, server_epk)
        d1 = self.ke.dh(client_esk, server_epk)
        d2 = self.ke.dh(client_esk, server_pk)
        d3 = self.ke.dh(csk, server_epk)
        if d1 is None or d2 is None or d3 is None:
            return {"ok": False, "reason": "dh input invalid"}
        km2, km3, sk, _ = self.derive_keys(d1 + d2 + d3, pre)
        if self.H.hmac(km2, self.H.digest(pre)) != server_mac:
            return {"ok": False, "reason": "server mac mismatch"}
        ke3 = self.H.hmac(km3, self.H.digest(pre + server_mac))
        return {"ok": True, "ke3": ke3, "session_key": sk, "export_key": export_key, "server_pk": server_pk}
