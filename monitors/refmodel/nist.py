"""NIST P-256 / P-384 / P-521: arithmetic, SEC1 compressed encoding, RFC 9380 SSWU hash-to-curve."""
from .hashes import I2OSP


class Curve:
    def __init__(self, name, p, b, n, gx, gy, Z, L, flen):
        self.name, self.p, self.a, self.b, self.n = name, p, p - 3, b, n
        self.G = (gx, gy)
        self.Z = Z % p
        self.L = L          # hash_to_field expansion length
        self.flen = flen    # field element / scalar byte length
        self.elen = flen + 1

    # ---- affine <-> jacobian
    def on_curve(self, P):
        if P is None:
            return True
        x, y = P
        return (y * y - (x * x * x + self.a * x + self.b)) % self.p == 0

    def _jdbl(self, P):
        X1, Y1, Z1 = P
        p = self.p
        if Y1 == 0 or Z1 == 0:
            return (1, 1, 0)
        # a = -3
        ZZ = Z1 * Z1 % p
        M = 3 * (X1 - ZZ) * (X1 + ZZ) % p
        YY = Y1 * Y1 % p
        S = 4 * X1 * YY % p
        X3 = (M * M - 2 * S) % p
        Y3 = (M * (S - X3) - 8 * YY * YY) % p
        Z3 = 2 * Y1 * Z1 % p
        return (X3, Y3, Z3)

    def _jadd(self, P, Q):
        p = self.p
        X1, Y1, Z1 = P
        X2, Y2, Z2 = Q
        if Z1 == 0:
            return Q
        if Z2 == 0:
            return P
        Z1Z1 = Z1 * Z1 % p
        Z2Z2 = Z2 * Z2 % p
        U1 = X1 * Z2Z2 % p
        U2 = X2 * Z1Z1 % p
        S1 = Y1 * Z2 * Z2Z2 % p
        S2 = Y2 * Z1 * Z1Z1 % p
        if U1 == U2:
            if S1 == S2:
                return self._jdbl(P)
            return (1, 1, 0)
        Hh = (U2 - U1) % p
        R = (S2 - S1) % p
        HH = Hh * Hh % p
        HHH = Hh * HH % p
        V = U1 * HH % p
        X3 = (R * R - HHH - 2 * V) % p
        Y3 = (R * (V - X3) - S1 * HHH) % p
        Z3 = Hh * Z1 * Z2 % p
        return (X3, Y3, Z3)

    def _to_affine(self, P):
        X, Y, Z = P
        if Z == 0:
            return None
        p = self.p
        zi = pow(Z, -1, p)
        zi2 = zi * zi % p
        return (X * zi2 % p, Y * zi2 * zi % p)

    def add(self, P, Q):
        if P is None:
            return Q
        if Q is None:
            return P
        return self._to_affine(self._jadd((P[0], P[1], 1), (Q[0], Q[1], 1)))

    def mul(self, k, P):
        k %= self.n
        if P is None or k == 0:
            return None
        R = (1, 1, 0)
        A = (P[0], P[1], 1)
        for bit in bin(k)[2:]:
            R = self._jdbl(R)
            if bit == "1":
                R = self._jadd(R, A)
        return self._to_affine(R)

    def base(self, k):
        return self.mul(k, self.G)

    # ---- SEC1 compressed
    def encode(self, P):
        if P is None:
            raise ValueError("identity has no compressed fixed-length encoding")
        x, y = P
        return bytes([2 + (y & 1)]) + x.to_bytes(self.flen, "big")

    def sqrt(self, v):
        # p = 3 mod 4 for all three curves
        r = pow(v, (self.p + 1) // 4, self.p)
        return r if r * r % self.p == v % self.p else None

    def decode(self, b):
        """strict: exactly 1+flen bytes, tag 02/03, x < p, on curve. Returns None if invalid."""
        if len(b) != self.elen or b[0] not in (2, 3):
            return None
        x = int.from_bytes(b[1:], "big")
        if x >= self.p:
            return None
        y = self.sqrt((x * x * x + self.a * x + self.b) % self.p)
        if y is None:
            return None
        if (y & 1) != (b[0] & 1):
            y = self.p - y
        return (x, y)

    def decode_scalar(self, b):
        """strict: exactly flen bytes, 0 < s < n"""
        if len(b) != self.flen:
            return None
        s = int.from_bytes(b, "big")
        if s == 0 or s >= self.n:
            return None
        return s

    def encode_scalar(self, s):
        return (s % self.n).to_bytes(self.flen, "big")

    # ---- RFC 9380
    def hash_to_field(self, H, msg, dst, count, modulus):
        uniform = H.expand_message_xmd(msg, dst, count * self.L)
        return [int.from_bytes(uniform[i * self.L:(i + 1) * self.L], "big") % modulus for i in range(count)]

    def _sgn0(self, x):
        return x & 1

    def map_to_curve_sswu(self, u):
        p, A, B, Z = self.p, self.a, self.b, self.Z
        tv1 = (Z * Z * pow(u, 4, p) + Z * u * u) % p
        if tv1 == 0:
            x1 = B * pow(Z * A, -1, p) % p
        else:
            x1 = (-B * pow(A, -1, p)) % p * (1 + pow(tv1, -1, p)) % p
        gx1 = (pow(x1, 3, p) + A * x1 + B) % p
        x2 = Z * u * u % p * x1 % p
        gx2 = (pow(x2, 3, p) + A * x2 + B) % p
        y1 = self.sqrt(gx1)
        if y1 is not None:
            x, y = x1, y1
        else:
            x, y = x2, self.sqrt(gx2)
            assert y is not None
        if self._sgn0(u) != self._sgn0(y):
            y = p - y
        return (x, y)

    def hash_to_curve(self, H, msg, dst):
        u0, u1 = self.hash_to_field(H, msg, dst, 2, self.p)
        return self.add(self.map_to_curve_sswu(u0), self.map_to_curve_sswu(u1))

    def hash_to_scalar(self, H, msg, dst):
        return self.hash_to_field(H, msg, dst, 1, self.n)[0]


P256 = Curve(
    "P256",
    0xffffffff00000001000000000000000000000000ffffffffffffffffffffffff,
    0x5ac635d8aa3a93e7b3ebbd55769886bc651d06b0cc53b0f63bce3c3e27d2604b,
    0xffffffff00000000ffffffffffffffffbce6faada7179e84f3b9cac2fc632551,
    0x6b17d1f2e12c4247f8bce6e563a440f277037d812deb33a0f4a13945d898c296,
    0x4fe342e2fe1a7f9b8ee7eb4a7c0f9e162bce33576b315ececbb6406837bf51f5,
    -10, 48, 32)

P384 = Curve(
    "P384",
    2 ** 384 - 2 ** 128 - 2 ** 96 + 2 ** 32 - 1,
    0xb3312fa7e23ee7e4988e056be3f82d19181d9c6efe8141120314088f5013875ac656398d8a2ed19d2a85c8edd3ec2aef,
    0xffffffffffffffffffffffffffffffffffffffffffffffffc7634d81f4372ddf581a0db248b0a77aecec196accc52973,
    0xaa87ca22be8b05378eb1c71ef320ad746e1d3b628ba79b9859f741e082542a385502f25dbf55296c3a545e3872760ab7,
    0x3617de4a96262c6f5d9e98bf9292dc29f8f41dbd289a147ce9da3113b5f0b8c00a60b1ce1d7e819d7a431d7c90ea0e5f,
    -12, 72, 48)

P521 = Curve(
    "P521",
    2 ** 521 - 1,
    0x0051953eb9618e1c9a1f929a21a0b68540eea2da725b99b315f3b8b489918ef109e156193951ec7e937b1652c0bd3bb1bf073573df883d2c34f1ef451fd46b503f00,
    0x01fffffffffffffffffffffffffffffffffffffffffffffffffffffffffffffffffa51868783bf2f966b7fcc0148f709a5d03bb5c9b8899c47aebb6fb71e91386409,
    0x00c6858e06b70404e9cd9e3ecb662395b4429c648139053fb521f828af606b4d3dbaa14b5e77efe75928fe1dc127a2ffa8de3348b3c1856a429bf97e7e31c2e5bd66,
    0x011839296a789a3bc0045c8a5fb42c7d1bd998f54449579b446817afbd17273e662c97ee72995ef42640c550b9013fad0761353c7086a272c24088be94769fd16650,
    -4, 98, 66)
