"""Gate: the model must reproduce the published RFC vectors before any monitor consults it."""
import json
import os

from . import c25519, nist
from .groups import OprfSuite
from .hashes import Hash
from .opaque import Opaque

VDIR = os.path.join(os.path.dirname(os.path.abspath(__file__)), "vectors")
h = bytes.fromhex


def check_rfc9497():
    n = 0
    key = {"ristretto255-SHA512": "r255", "P256-SHA256": "p256", "P384-SHA384": "p384", "P521-SHA512": "p521"}
    for s in json.load(open(os.path.join(VDIR, "rfc9497.json"))):
        if s["suite"] not in key:
            continue
        o = OprfSuite(key[s["suite"]])
        sk = o.derive_key_pair(h(s["Seed"]), h(s["KeyInfo"]))
        assert o.G.encode_scalar(sk) == h(s["skSm"]), ("DeriveKeyPair", s["suite"])
        for v in s["vectors"]:
            blind = o.G.decode_scalar(h(v["Blind"]))
            be = o.blind(h(v["Input"]), blind)
            assert o.G.encode_elem(be) == h(v["BlindedElement"]), ("Blind", s["suite"])
            ev = o.blind_evaluate(sk, be)
            assert o.G.encode_elem(ev) == h(v["EvaluationElement"]), ("Evaluate", s["suite"])
            assert o.finalize(h(v["Input"]), blind, ev) == h(v["Output"]), ("Finalize", s["suite"])
            assert o.evaluate(sk, h(v["Input"])) == h(v["Output"])
            n += 1
    assert n == 8
    return n


def check_rfc9807():
    n = 0
    for v in json.load(open(os.path.join(VDIR, "rfc9807.json"))):
        ke = {"ristretto255": "r255", "curve25519": "x25519", "P256_XMD:SHA-256_SSWU_RO_": "p256"}[v["Group"]]
        op = {"ristretto255-SHA512": "r255", "P256-SHA256": "p256"}[v["OPRF"]]
        m = Opaque(op, ke)
        ctx = h(v["Context"])
        id_u = h(v["client_identity"]) if "client_identity" in v else None
        id_s = h(v["server_identity"]) if "server_identity" in v else None
        cesk, cepk = m.ke.derive_dh_keypair(m.oprf, h(v["client_keyshare_seed"]))
        sesk, sepk = m.ke.derive_dh_keypair(m.oprf, h(v["server_keyshare_seed"]))
        ssk, spk = h(v["server_private_key"]), h(v["server_public_key"])
        assert m.ke.pk_from_sk(ssk) == spk, v["title"]
        if "Fake" not in v["title"]:
            pw = h(v["password"])
            br = m.oprf.G.decode_scalar(h(v["blind_registration"]))
            bl = m.oprf.G.decode_scalar(h(v["blind_login"]))
            req = m.registration_request(pw, br)
            assert req == h(v["registration_request"]), v["title"]
            assert m.oprf.G.encode_scalar(m.oprf_key(h(v["oprf_seed"]), h(v["credential_identifier"]))) == h(v["oprf_key"])
            resp = m.registration_response(h(v["oprf_seed"]), h(v["credential_identifier"]), req, spk)
            assert resp == h(v["registration_response"]), v["title"]
            upl, export_key, _ = m.registration_upload(pw, br, resp, h(v["envelope_nonce"]), id_u, id_s)
            assert upl == h(v["registration_upload"]), v["title"]
            assert export_key == h(v["export_key"]), v["title"]
            ke1 = m.ke1(pw, bl, h(v["client_nonce"]), cepk)
            assert ke1 == h(v["KE1"]), v["title"]
            rec = (upl[:m.npk], upl[m.npk:m.npk + m.nh], upl[m.npk + m.nh:])
            ke2, state, sk = m.ke2(h(v["oprf_seed"]), h(v["credential_identifier"]), ssk, spk, rec, ke1,
                                   h(v["masking_nonce"]), h(v["server_nonce"]), sesk, sepk, ctx, id_u, id_s)
            assert ke2 == h(v["KE2"]), v["title"]
            assert sk == h(v["session_key"]), v["title"]
            r = m.client_finish(pw, bl, ke1, cesk, ke2, ctx, id_u, id_s)
            assert r["ok"] and r["ke3"] == h(v["KE3"]) and r["session_key"] == sk and r["export_key"] == export_key, v["title"]
            assert state[:m.nh] == h(v["client_mac_key"]) and state[2 * m.nh:] == sk
            bad = m.client_finish(pw + b"x", bl, ke1, cesk, ke2, ctx, id_u, id_s)
            assert not bad["ok"]
        else:
            ke1 = h(v["KE1"])
            rec = (h(v["client_public_key"]), h(v["masking_key"]), bytes(32 + m.nm))
            ke2, _, _ = m.ke2(h(v["oprf_seed"]), h(v["credential_identifier"]), ssk, spk, rec, ke1,
                              h(v["masking_nonce"]), h(v["server_nonce"]), sesk, sepk, ctx, id_u, id_s)
            assert ke2 == h(v["KE2"]), v["title"]
        n += 1
    assert n == 9
    return n


def check_rfc9496():
    # A.1 multiples of the generator (0..3 and 15) ; A.2 a sample of invalid encodings
    mult = {
        0: "0000000000000000000000000000000000000000000000000000000000000000",
        1: "e2f2ae0a6abc4e71a884a961c500515f58e30b6aa582dd8db6a65945e08d2d76",
        2: "6a493210f7499cd17fecb510ae0cea23a110e8d5b901f8acadd3095c73a3b919",
        3: "94741f5d5d52755ece4f23f044ee27d5d1ea1e2bd196b462166b16152a9d0259",
    }
    for k, e in mult.items():
        assert c25519.r_encode(c25519.ed_mul(k, c25519.B)).hex() == e, k
        if k:
            assert c25519.r_encode(c25519.r_decode(h(e))).hex() == e
    bad = """00ffffffffffffffffffffffffffffffffffffffffffffffffffffffffffffff
ffffffffffffffffffffffffffffffffffffffffffffffffffffffffffffff7f
f3ffffffffffffffffffffffffffffffffffffffffffffffffffffffffffff7f
edffffffffffffffffffffffffffffffffffffffffffffffffffffffffffff7f
0100000000000000000000000000000000000000000000000000000000000000
01ffffffffffffffffffffffffffffffffffffffffffffffffffffffffffff7f
ed57ffd8c914fb201471d1c3d245ce3c746fcbe63a3679d51b6a516ebebe0e20
c34c4e1826e5d403b78e246e88aa051c36ccf0aafebffe137d148a2bf9104562
c940e5a4404157cfb1628b108db051a8d439e1a421394ec4ebccb9ec92a8ac78
47cfc5497c53dc8e61c91d17fd626ffb1c49e2bca94eed052281b510b1117a24
f1c6165d33367351b0da8f6e4511010c68174a03b6581212c71c0e1d026c3c72
87260f7a2f12495118360f02c26a470f450dadf34a413d21042b43b9d93e1309
26948d35ca62e643e26a83177332e6b6afeb9d08e4268b650f1f5bbd8d81d371
4eac077a713c57b4f4397629a4145982c661f48044dd3f96427d40b147d9742f
de6a7b00deadc788eb6b6c8d20c0ae96c2f2019078fa604fee5b87d6e989ad7b
bcab477be20861e01e4a0e295284146a510150d9817763caf1a6f4b422d67042
3eb858e78f5a7254d8c9731174a94f76755fd3941c0ac93735c07ba14579630e
a45fdc55c76448c049a1ab33f17023edfb2be3581e9c7aade8a6125215e04220
d483fe813c6ba647ebbfd3ec41adca1c6130c2beeee9d9bf065c8d151c5f396e
8a2e1d30050198c65a54483123960ccc38aef6848e1ec8f5f780e8523769ba32
32888462f8b486c68ad7dd9610be5192bbeaf3b443951ac1a8118419d9fa097b
227142501b9d4355ccba290404bde41575b037693cef1f438c47f8fbf35d1165
5c37cc491da847cfeb9281d407efc41e15144c876e0170b499a96a22ed31e01e
445425117cb8c90edcbc7c1cc0e74f747f2c1efa5630a967c64f287792a48a4b
ecffffffffffffffffffffffffffffffffffffffffffffffffffffffffffff7f""".split()
    for e in bad:
        assert c25519.r_decode(h(e)) is None, e
    return len(mult) + len(bad)


def check_rfc7748():
    k = h("a546e36bf0527c9d3b16154b82465edd62144c0ac1fc5a18506a2244ba449ac4")
    u = h("e6db6867583030db3594c1a424b15f7c726624ec26b3353b10a903a6d0ab1c4c")
    assert c25519.x25519(k, u).hex() == "c3da55379de9c6908e94ea4df28d084f32eccf03491c71f754b4075577a28552"
    k = h("4b66e9d4d1b4673c5ad22691957d6af5c11b6421e0ea01d42ca4169e7918ba0d")
    u = h("e5210f12786811d3f4b7959d0538ae2c31dbe7106fc03c3efc4cd549c715a493")
    assert c25519.x25519(k, u).hex() == "95cbde9476e8907d7aade45cb4b873f88b595a68799fa152e6f8f7647aac7957"
    # iterated vector, 1 and 1000 iterations
    k = u = c25519.X_BASE
    for i in range(1000):
        k, u = c25519.x25519(k, u), k
        if i == 0:
            assert k.hex() == "422c8e7a6227d7bca1350b3e2bb7279f7897b87bb6854b783c60e80311ae3079"
    assert k.hex() == "684cf59ba83309552800ef566f2f4d3c1c3887c49360e3875f2eb94d99532c51"
    # DH
    a = h("77076d0a7318a57d3c16c17251b26645df4c2f87ebc0992ab177fba51db92c2a")
    b = h("5dab087e624a8a4b79e17f8b83800ee66f3bb1292618b6fd1c2f8b27ff88e0eb")
    A, Bp = c25519.x25519(a, c25519.X_BASE), c25519.x25519(b, c25519.X_BASE)
    assert A.hex() == "8520f0098930a754748b7ddcb43ef75a0dbf3a0d26381af4eba4a98eaa9b4e6a"
    assert c25519.x25519(a, Bp) == c25519.x25519(b, A) == h("4a5d9d5ba4ce2de1728e3bf480350f25e07e21c947d19e3376f09b3c1e161742")
    for u0 in c25519.X_SMALL_ORDER:
        assert c25519.x25519(a, u0.to_bytes(32, "little")) == bytes(32)
    return 5


def check_rfc9380():
    # RFC 9380 appendix J.1.1 / J.2.1 / J.3.1 (msg = "" and "abc"), K.1 expand_message_xmd SHA-256
    H = Hash("sha256")
    assert H.expand_message_xmd(b"", b"QUUX-V01-CS02-with-expander-SHA256-128", 0x20).hex() == \
        "68a985b87eb6b46952128911f2a4412bbc302a9d759667f87f7a21d803f07235"
    assert H.expand_message_xmd(b"abc", b"QUUX-V01-CS02-with-expander-SHA256-128", 0x20).hex() == \
        "d8ccab23b5985ccea865c6c97b6e5b8350e794e603b4b97902f53a8a0d605615"
    P = nist.P256.hash_to_curve(Hash("sha256"), b"", b"QUUX-V01-CS02-with-P256_XMD:SHA-256_SSWU_RO_")
    assert "%064x" % P[0] == "2c15230b26dbc6fc9a37051158c95b79656e17a1a920b11394ca91c44247d3e4"
    assert "%064x" % P[1] == "8a7a74985cc5c776cdfe4b1f19884970453912e9d31528c060be9ab5c43e8415"
    P = nist.P256.hash_to_curve(Hash("sha256"), b"abc", b"QUUX-V01-CS02-with-P256_XMD:SHA-256_SSWU_RO_")
    assert "%064x" % P[0] == "0bb8b87485551aa43ed54f009230450b492fead5f1cc91658775dac4a3388a0f"
    P = nist.P384.hash_to_curve(Hash("sha384"), b"", b"QUUX-V01-CS02-with-P384_XMD:SHA-384_SSWU_RO_")
    assert "%096x" % P[0] == "eb9fe1b4f4e14e7140803c1d99d0a93cd823d2b024040f9c067a8eca1f5a2eeac9ad604973527a356f3fa3aeff0e4d83"
    P = nist.P521.hash_to_curve(Hash("sha512"), b"", b"QUUX-V01-CS02-with-P521_XMD:SHA-512_SSWU_RO_")
    assert "%0132x" % P[0] == "00fd767cebb2452030358d0e9cf907f525f50920c8f607889a6a35680727f64f4d66b161fafeb2654bea0d35086bec0a10b30b14adef3556ed9f7f1bc23cecc9c088"
    for c in (nist.P256, nist.P384, nist.P521):
        assert c.on_curve(c.G) and c.mul(c.n - 1, c.G)[0] == c.G[0] and c._jadd((c.G[0], c.G[1], 1), (c.G[0], c.p - c.G[1], 1))[2] == 0
    return 8


_DONE = None


def run():
    """returns (ok, detail). Cached per process."""
    global _DONE
    if _DONE is None:
        try:
            d = {"rfc9380": check_rfc9380(), "rfc9496": check_rfc9496(), "rfc7748": check_rfc7748(),
                 "rfc9497": check_rfc9497(), "rfc9807": check_rfc9807()}
            _DONE = (True, d)
        except AssertionError as e:
            _DONE = (False, "model self-test failed: %r" % (e,))
        except Exception as e:  # noqa
            _DONE = (False, "model self-test error: %r" % (e,))
    return _DONE


if __name__ == "__main__":
    import time
    t = time.time()
    print(run(), round(time.time() - t, 2), "s")
