"""ristretto255 (RFC 9496) and X25519 (RFC 7748), from the RFC pseudo-code."""

P = 2 ** 255 - 19
L = 2 ** 252 + 27742317777372353535851937790883648493
D = (-121665 * pow(121666, -1, P)) % P
SQRT_M1 = pow(2, (P - 1) // 4, P)


def _is_neg(x):
    return (x % P) & 1


def _abs(x):
    x %= P
    return P - x if x & 1 else x


def sqrt_ratio_m1(u, v):
    u %= P
    v %= P
    v3 = v * v % P * v % P
    v7 = v3 * v3 % P * v % P
    r = u * v3 % P * pow(u * v7 % P, (P - 5) // 8, P) % P
    check = v * r % P * r % P
    correct = check == u
    flipped = check == (-u) % P
    flipped_i = check == (-u * SQRT_M1) % P
    if flipped or flipped_i:
        r = SQRT_M1 * r % P
    r = _abs(r)
    return (correct or flipped), r


def _root(v):
    ok, r = sqrt_ratio_m1(v, 1)
    assert ok
    return r


# constants derived from their definitions (RFC 9496 section 4.1), sign = the non-negative root,
# then cross-checked against the RFC test vectors in selftest.py
ONE_MINUS_D_SQ = (1 - D * D) % P
D_MINUS_ONE_SQ = (D - 1) * (D - 1) % P
SQRT_AD_MINUS_ONE = _root((-D - 1) % P)          # a = -1
_ok, INVSQRT_A_MINUS_D = sqrt_ratio_m1(1, (-1 - D) % P)
assert _ok
# RFC 9496 lists these two with specific signs:
_RFC_SQRT_AD_MINUS_ONE = 25063068953384623474111414158702152701244531502492656460079210482610430750235
_RFC_INVSQRT_A_MINUS_D = 54469307008909316920995813868745141605393597292927456921205312896311721017578
if SQRT_AD_MINUS_ONE != _RFC_SQRT_AD_MINUS_ONE and (P - SQRT_AD_MINUS_ONE) == _RFC_SQRT_AD_MINUS_ONE:
    SQRT_AD_MINUS_ONE = _RFC_SQRT_AD_MINUS_ONE
if INVSQRT_A_MINUS_D != _RFC_INVSQRT_A_MINUS_D and (P - INVSQRT_A_MINUS_D) == _RFC_INVSQRT_A_MINUS_D:
    INVSQRT_A_MINUS_D = _RFC_INVSQRT_A_MINUS_D

IDENT = (0, 1, 1, 0)


def ed_add(p1, p2):
    X1, Y1, Z1, T1 = p1
    X2, Y2, Z2, T2 = p2
    A = (Y1 - X1) * (Y2 - X2) % P
    B = (Y1 + X1) * (Y2 + X2) % P
    C = T1 * 2 * D % P * T2 % P
    Dd = Z1 * 2 * Z2 % P
    E = B - A
    F = Dd - C
    G = Dd + C
    Hh = B + A
    return (E * F % P, G * Hh % P, F * G % P, E * Hh % P)


def ed_mul(k, pt):
    R = IDENT
    for bit in bin(k)[2:] if k else "":
        R = ed_add(R, R)
        if bit == "1":
            R = ed_add(R, pt)
    return R


def _basepoint():
    y = 4 * pow(5, -1, P) % P
    x2 = (y * y - 1) * pow(D * y * y + 1, -1, P) % P
    ok, x = sqrt_ratio_m1(x2, 1)
    assert ok
    if x & 1:
        x = P - x
    return (x, y, 1, x * y % P)


B = _basepoint()


def r_decode(b):
    """RFC 9496 4.3.1; None if invalid (non-canonical, negative, not a valid encoding)."""
    if len(b) != 32:
        return None
    s = int.from_bytes(b, "little")
    if s >= P or (s & 1):
        return None
    ss = s * s % P
    u1 = (1 - ss) % P
    u2 = (1 + ss) % P
    u2_sqr = u2 * u2 % P
    v = (-(D * u1 % P * u1) - u2_sqr) % P
    was_square, invsqrt = sqrt_ratio_m1(1, v * u2_sqr % P)
    den_x = invsqrt * u2 % P
    den_y = invsqrt * den_x % P * v % P
    x = _abs(2 * s * den_x % P)
    y = u1 * den_y % P
    t = x * y % P
    if (not was_square) or _is_neg(t) or y == 0:
        return None
    return (x, y, 1, t)


def r_encode(pt):
    x0, y0, z0, t0 = pt
    u1 = (z0 + y0) * (z0 - y0) % P
    u2 = x0 * y0 % P
    _, invsqrt = sqrt_ratio_m1(1, u1 * u2 % P * u2 % P)
    den1 = invsqrt * u1 % P
    den2 = invsqrt * u2 % P
    z_inv = den1 * den2 % P * t0 % P
    ix0 = x0 * SQRT_M1 % P
    iy0 = y0 * SQRT_M1 % P
    ench = den1 * INVSQRT_A_MINUS_D % P
    rotate = _is_neg(t0 * z_inv % P)
    if rotate:
        x, y, den_inv = iy0, ix0, ench
    else:
        x, y, den_inv = x0, y0, den2
    z = z0
    if _is_neg(x * z_inv % P):
        y = (-y) % P
    s = _abs(den_inv * (z - y) % P)
    return s.to_bytes(32, "little")


def r_map(t):
    r = SQRT_M1 * t % P * t % P
    u = (r + 1) * ONE_MINUS_D_SQ % P
    v = (-1 - r * D) % P * ((r + D) % P) % P
    was_square, s = sqrt_ratio_m1(u, v)
    s_prime = (-_abs(s * t % P)) % P
    if not was_square:
        s = s_prime
        c = r
    else:
        c = P - 1
    N = (c * ((r - 1) % P) % P * D_MINUS_ONE_SQ - v) % P
    w0 = 2 * s * v % P
    w1 = N * SQRT_AD_MINUS_ONE % P
    w2 = (1 - s * s) % P
    w3 = (1 + s * s) % P
    return (w0 * w3 % P, w2 * w1 % P, w1 * w3 % P, w0 * w2 % P)


def r_from_uniform(b64):
    assert len(b64) == 64
    t1 = (int.from_bytes(b64[:32], "little") & ((1 << 255) - 1)) % P
    t2 = (int.from_bytes(b64[32:], "little") & ((1 << 255) - 1)) % P
    return ed_add(r_map(t1), r_map(t2))


def r_is_identity(pt):
    return r_encode(pt) == bytes(32)


def r_mul(k, pt):
    return ed_mul(k % L, pt)


def sc_decode(b):
    """canonical non-zero scalar or None"""
    if len(b) != 32:
        return None
    s = int.from_bytes(b, "little")
    if s == 0 or s >= L:
        return None
    return s


def sc_encode(s):
    return (s % L).to_bytes(32, "little")


# ---------------------------------------------------------------------------- X25519 (RFC 7748)

def clamp(k: bytes) -> bytes:
    k = bytearray(k)
    k[0] &= 248
    k[31] &= 127
    k[31] |= 64
    return bytes(k)


def x25519(k: bytes, u: bytes) -> bytes:
    kk = int.from_bytes(clamp(k), "little")
    x1 = (int.from_bytes(u, "little") & ((1 << 255) - 1)) % P
    x2, z2, x3, z3 = 1, 0, x1, 1
    swap = 0
    a24 = 121665
    for t in range(254, -1, -1):
        kt = (kk >> t) & 1
        swap ^= kt
        if swap:
            x2, x3 = x3, x2
            z2, z3 = z3, z2
        swap = kt
        A = (x2 + z2) % P
        AA = A * A % P
        Bb = (x2 - z2) % P
        BB = Bb * Bb % P
        E = (AA - BB) % P
        C = (x3 + z3) % P
        Dd = (x3 - z3) % P
        DA = Dd * A % P
        CB = C * Bb % P
        x3 = (DA + CB) % P
        x3 = x3 * x3 % P
        z3 = (DA - CB) % P
        z3 = x1 * z3 % P * z3 % P
        x2 = AA * BB % P
        z2 = E * ((AA + a24 * E) % P) % P
    if swap:
        x2, x3 = x3, x2
        z2, z3 = z3, z2
    return (x2 * pow(z2, P - 2, P) % P).to_bytes(32, "little")


X_BASE = (9).to_bytes(32, "little")

# the u-coordinates of the points of order 1, 2, 4, 8 on Curve25519 and its twist (reduced mod p),
# as listed e.g. in RFC 7748 section 6.1 discussion / https://cr.yp.to/ecdh.html#validate
X_SMALL_ORDER = [
    0,
    1,
    325606250916557431795983626356110631294008115727848805560023387167927233504,
    39382357235489614581723060781553021112529911719440698176882885853963445705823,
    P - 1,
]


# ---------------------------------------------------------------------------- small-subgroup helpers
def _ed_affine(pt):
    X, Y, Z, _ = pt
    zi = pow(Z, P - 2, P)
    return X * zi % P, Y * zi % P


def ed_torsion():
    """the 8 points of order dividing 8 on edwards25519 (affine), found by cofactor-clearing a point"""
    k = 3
    while True:
        # some curve point: y = k, solve x
        y = k
        x2 = (y * y - 1) * pow(D * y * y + 1, P - 2, P) % P
        ok, x = sqrt_ratio_m1(x2, 1)
        k += 1
        if not ok:
            continue
        q = ed_mul(L, (x, y, 1, x * y % P))
        pts = [IDENT]
        cur = q
        for _ in range(7):
            pts.append(cur)
            cur = ed_add(cur, q)
        aff = {_ed_affine(t) for t in pts}
        if len(aff) == 8:
            return [(a, b, 1, a * b % P) for a, b in sorted(aff)]


_TORSION = None


def x_torsion_variants(u_bytes):
    """u-coordinates of P + T for the non-trivial small-order points T, where u(P) = u_bytes (P on the curve).
    These are DIFFERENT valid public keys that give the SAME X25519 output as P for every clamped scalar."""
    global _TORSION
    if _TORSION is None:
        _TORSION = ed_torsion()
    u = (int.from_bytes(u_bytes, "little") & ((1 << 255) - 1)) % P
    if (u + 1) % P == 0:
        return []
    y = (u - 1) * pow(u + 1, P - 2, P) % P
    x2 = (y * y - 1) * pow(D * y * y + 1, P - 2, P) % P
    ok, x = sqrt_ratio_m1(x2, 1)
    if not ok:
        return []          # on the twist
    base = (x, y, 1, x * y % P)
    out = []
    for t in _TORSION:
        xr, yr = _ed_affine(ed_add(base, t))
        if (1 - yr) % P == 0:
            continue
        ur = (1 + yr) * pow(1 - yr, P - 2, P) % P
        b = ur.to_bytes(32, "little")
        if b != u.to_bytes(32, "little") and b not in out:
            out.append(b)
    return out
