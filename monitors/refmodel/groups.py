"""Uniform group interface over the NIST curves, ristretto255 and Curve25519 for the model."""
from . import c25519, nist
from .hashes import Hash, I2OSP


class NistGroup:
    def __init__(self, curve):
        self.c = curve
        self.name = curve.name
        self.elen = curve.elen
        self.slen = curve.flen
        self.order = curve.n

    def decode_elem(self, b):
        return self.c.decode(b)

    def encode_elem(self, P):
        return self.c.encode(P)

    def mul(self, k, P):
        return self.c.mul(k, P)

    def base(self, k):
        return self.c.base(k)

    def decode_scalar(self, b):
        return self.c.decode_scalar(b)

    def encode_scalar(self, s):
        return self.c.encode_scalar(s)

    def hash_to_group(self, H, msg, dst):
        return self.c.hash_to_curve(H, msg, dst)

    def hash_to_scalar(self, H, msg, dst):
        return self.c.hash_to_scalar(H, msg, dst)

    def inv(self, s):
        return pow(s, -1, self.order)

    def is_identity(self, P):
        return P is None

    def random_scalar_from_draws(self, draws):
        """NonZeroScalar::random: rejection sampling of big-endian field-size strings"""
        for d in draws:
            s = self.decode_scalar(d)
            if s is not None:
                return s
        return None


class RistrettoGroup:
    name = "ristretto255"
    elen = 32
    slen = 32
    order = c25519.L

    def decode_elem(self, b):
        P = c25519.r_decode(b)
        if P is None or c25519.r_is_identity(P):
            return None
        return P

    def encode_elem(self, P):
        return c25519.r_encode(P)

    def mul(self, k, P):
        return c25519.r_mul(k, P)

    def base(self, k):
        return c25519.r_mul(k, c25519.B)

    def decode_scalar(self, b):
        return c25519.sc_decode(b)

    def encode_scalar(self, s):
        return c25519.sc_encode(s)

    def hash_to_group(self, H, msg, dst):
        return c25519.r_from_uniform(H.expand_message_xmd(msg, dst, 64))

    def hash_to_scalar(self, H, msg, dst):
        return int.from_bytes(H.expand_message_xmd(msg, dst, 64), "little") % c25519.L

    def inv(self, s):
        return pow(s, -1, self.order)

    def is_identity(self, P):
        return c25519.r_is_identity(P)


class OprfSuite:
    def __init__(self, key):
        ident, hname, grp = {
            "r255": ("ristretto255-SHA512", "sha512", RistrettoGroup()),
            "p256": ("P256-SHA256", "sha256", NistGroup(nist.P256)),
            "p384": ("P384-SHA384", "sha384", NistGroup(nist.P384)),
            "p521": ("P521-SHA512", "sha512", NistGroup(nist.P521)),
        }[key]
        self.key = key
        self.id = ident
        self.H = Hash(hname)
        self.G = grp
        self.context = b"OPRFV1-" + I2OSP(0, 1) + b"-" + ident.encode()
        self.noe = grp.elen
        self.ns = grp.slen
        self.nh = self.H.out

    # RFC 9497 section 3.2.1
    def derive_key_pair(self, seed, info, group=None):
        """DeriveKeyPair; `group` lets OPAQUE run the same derivation in the key-exchange group"""
        G = group or self.G
        derive_input = seed + I2OSP(len(info), 2) + info
        counter = 0
        sk = 0
        while sk == 0:
            if counter > 255:
                raise ValueError("DeriveKeyPairError")
            sk = G.hash_to_scalar(self.H, derive_input + I2OSP(counter, 1), b"DeriveKeyPair" + self.context)
            counter += 1
        return sk

    def hash_to_group(self, msg):
        return self.G.hash_to_group(self.H, msg, b"HashToGroup-" + self.context)

    def blind(self, inp, blind):
        P = self.hash_to_group(inp)
        if self.G.is_identity(P):
            raise ValueError("InvalidInputError")
        return self.G.mul(blind, P)

    def blind_evaluate(self, sk, blinded):
        return self.G.mul(sk, blinded)

    def finalize(self, inp, blind, evaluated):
        n = self.G.mul(self.G.inv(blind), evaluated)
        unblinded = self.G.encode_elem(n)
        return self.H.digest(I2OSP(len(inp), 2) + inp + I2OSP(len(unblinded), 2) + unblinded + b"Finalize")

    def evaluate(self, sk, inp):
        P = self.hash_to_group(inp)
        el = self.G.encode_elem(self.G.mul(sk, P))
        return self.H.digest(I2OSP(len(inp), 2) + inp + I2OSP(len(el), 2) + el + b"Finalize")


class KeGroupModel:
    """Key-exchange group as OPAQUE-3DH uses it: byte-level keys, DH, seeded key derivation."""

    def __init__(self, key):
        self.key = key
        if key == "x25519":
            self.npk = self.nsk = 32
            self.G = None
        else:
            self.G = {"r255": RistrettoGroup(), "p256": NistGroup(nist.P256), "p384": NistGroup(nist.P384),
                      "p521": NistGroup(nist.P521)}[key]
            self.npk, self.nsk = self.G.elen, self.G.slen

    def derive_dh_keypair(self, oprf: OprfSuite, seed: bytes):
        """DeriveDiffieHellmanKeyPair(seed) -> (sk bytes, pk bytes)"""
        if self.key == "x25519":
            sk = c25519.clamp(seed)
            return sk, c25519.x25519(sk, c25519.X_BASE)
        s = oprf.derive_key_pair(seed, b"OPAQUE-DeriveDiffieHellmanKeyPair", group=self.G)
        return self.G.encode_scalar(s), self.G.encode_elem(self.G.base(s))

    def pk_from_sk(self, sk: bytes):
        if self.key == "x25519":
            return c25519.x25519(sk, c25519.X_BASE)
        s = self.G.decode_scalar(sk)
        if s is None:
            return None
        return self.G.encode_elem(self.G.base(s))

    def dh(self, sk: bytes, pk: bytes):
        if self.key == "x25519":
            return c25519.x25519(sk, pk)
        s = self.G.decode_scalar(sk)
        P = self.G.decode_elem(pk)
        if s is None or P is None:
            return None
        return self.G.encode_elem(self.G.mul(s, P))

    def valid_pk(self, pk: bytes):
        """is this a public key encoding that the properties say must be accepted-as-valid?
        (C11: identity, invalid encodings and - for Curve25519 - small-order points are invalid)"""
        if self.key == "x25519":
            if len(pk) != 32:
                return False
            u = (int.from_bytes(pk, "little") & ((1 << 255) - 1)) % c25519.P
            return u not in c25519.X_SMALL_ORDER
        return len(pk) == self.npk and self.G.decode_elem(pk) is not None

    def valid_sk(self, sk: bytes):
        if self.key == "x25519":
            return len(sk) == 32 and c25519.clamp(sk) == sk
        return self.G.decode_scalar(sk) is not None
