import hashlib
import hmac as _hmac

HASHES = {
    "sha256": (hashlib.sha256, 32, 64),
    "sha384": (hashlib.sha384, 48, 128),
    "sha512": (hashlib.sha512, 64, 128),
}


def I2OSP(x, n):
    if x < 0 or x >= 256 ** n:
        raise ValueError("I2OSP: integer too large")
    return x.to_bytes(n, "big")


class Hash:
    def __init__(self, name):
        self.name = name
        self.fn, self.out, self.block = HASHES[name]

    def digest(self, data):
        return self.fn(data).digest()

    def hmac(self, key, data):
        return _hmac.new(key, data, self.fn).digest()

    def extract(self, salt, ikm):
        if not salt:
            salt = bytes(self.out)
        return self.hmac(salt, ikm)

    def expand(self, prk, info, L):
        if L > 255 * self.out:
            raise ValueError("HKDF-Expand: too long")
        t = b""
        okm = b""
        i = 0
        while len(okm) < L:
            i += 1
            t = self.hmac(prk, t + info + bytes([i]))
            okm += t
        return okm[:L]

    def expand_message_xmd(self, msg, dst, length):
        # RFC 9380 section 5.3.1
        if len(dst) > 255:
            dst = self.digest(b"H2C-OVERSIZE-DST-" + dst)
        ell = -(-length // self.out)
        if ell > 255 or length > 65535:
            raise ValueError("expand_message_xmd: length")
        dst_prime = dst + I2OSP(len(dst), 1)
        z_pad = bytes(self.block)
        l_i_b = I2OSP(length, 2)
        b0 = self.digest(z_pad + msg + l_i_b + b"\x00" + dst_prime)
        b = [self.digest(b0 + b"\x01" + dst_prime)]
        for i in range(2, ell + 1):
            x = bytes(a ^ c for a, c in zip(b0, b[-1]))
            b.append(self.digest(x + I2OSP(i, 1) + dst_prime))
        return b"".join(b)[:length]
