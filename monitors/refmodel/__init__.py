"""Independent executable model of RFC 9807 (OPAQUE-3DH), RFC 9497 (OPRF mode 0), RFC 9380
(hash-to-curve), RFC 9496 (ristretto255) and RFC 7748 (X25519), written from the RFC text with the
Python standard library only. It shares no code or constant table with the Rust dependency tree.
It is an *oracle run against recorded executions*, gated by the RFC test vectors (selftest.py)."""
