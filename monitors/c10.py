"""C10 - wire and storage encodings are strict and canonical.

Refuting event: decoder D accepts bytes x and D(x).serialize() != x (truncated, over-long or
alternatively-encoded input accepted), or decode(encode(o)) != o.
"""
from . import okv, proto
from .refmodel import c25519, nist

LEVEL = "exploration"
RULE = ("per suite and decoder (6 messages, password file, server setup, 3 in-flight states): valid encodings from "
        "real runs, then every length 0..len+64 (truncation; extension by zeros / random bytes / a second valid "
        "encoding), all 256 values of the first and last byte of every group-element and scalar field, single-byte "
        "substitutions at every offset, and crafted non-reduced field elements / scalars and alternative SEC1 tags; the "
        "server setup decoder also with externally held keys (serialized key field of Nsk, 12 and 80 bytes): round trip and "
        "every length 0..len+64; "
        "non-trivial = the mutated string was accepted by the decoder (so the re-encoding criterion was actually "
        "evaluated); distinct = distinct (suite, decoder, mutation) triples")
ASSUMPTIONS = ["criterion is the statement's own: accept implies re-encode == input", "held on the inputs tried only"]

CURVES = {"p256": nist.P256, "p384": nist.P384, "p521": nist.P521}


def jobs(tier, seed):
    out = []
    for su in okv.SUITES20:
        out.append({"suite": su, "seed": seed, "tier": tier, "cost": okv.suite_cost(su)})
    return out


def classify(sz, kind, x, y):
    """signature of an accepted-but-not-canonical input: decoder, field, what differs"""
    if len(x) != len(y):
        return "%s %s input accepted" % (kind, "over-long" if len(x) > len(y) else "truncated")
    diffs = [i for i in range(len(x)) if x[i] != y[i]]
    for name, off, ln, cls in sz.fields(kind):
        if off <= diffs[0] < off + ln:
            grp = sz.oprf if cls in "ES" else sz.ke
            fam = "nist" if grp.startswith("p") else grp
            if diffs == [off] and cls in "EP" and fam == "nist":
                return "%s.%s nist SEC1 tag 0x%02x accepted and re-encoded as 0x%02x" % (kind, name, x[off], y[off])
            return "%s.%s %s alias encoding accepted (%d bytes differ)" % (kind, name, fam, len(diffs))
    return "%s alias encoding accepted" % kind


def small_alias_elems(grpname):
    """(valid canonical encoding, [alias encodings]) of group elements that have a non-reduced
    representative of the same length"""
    out = []
    if grpname in CURVES:
        c = CURVES[grpname]
        room = 256 ** c.flen
        x = 1
        found = 0
        while found < 2 and x < 2000:
            if x + c.p < room:
                y = c.sqrt((x * x * x + c.a * x + c.b) % c.p)
                if y is not None:
                    for tag in (2, 3):
                        can = bytes([tag]) + x.to_bytes(c.flen, "big")
                        al = [bytes([tag]) + (x + c.p).to_bytes(c.flen, "big")]
                        if x + 2 * c.p < room:
                            al.append(bytes([tag]) + (x + 2 * c.p).to_bytes(c.flen, "big"))
                        out.append((can, al))
                    found += 1
            else:
                break
            x += 1
    elif grpname == "r255":
        for s0 in range(2, 19, 2):
            can = s0.to_bytes(32, "little")
            if c25519.r_decode(can) is not None:
                out.append((can, [(s0 + c25519.P).to_bytes(32, "little"), (s0 | (1 << 255)).to_bytes(32, "little")]))
    elif grpname == "x25519":
        for u in (2, 9, 16):
            can = u.to_bytes(32, "little")
            out.append((can, [(u + c25519.P).to_bytes(32, "little"), (u | (1 << 255)).to_bytes(32, "little")]))
    return out


def scalar_aliases(grpname, sbytes):
    """non-reduced representatives of a valid scalar encoding (same length), if any"""
    out = []
    if grpname in CURVES:
        c = CURVES[grpname]
        s = int.from_bytes(sbytes, "big")
        for k in (1, 2):
            if s + k * c.n < 256 ** c.flen:
                out.append((s + k * c.n).to_bytes(c.flen, "big"))
        # a scalar small enough to have an alias on every curve
        return out
    if grpname == "r255":
        s = int.from_bytes(sbytes, "little")
        for k in (1, 8):
            if s + k * c25519.L < 2 ** 256:
                out.append((s + k * c25519.L).to_bytes(32, "little"))
    return out


def run_job(job):
    su, tier = job["suite"], job["tier"]
    rnd = proto.pyrng("c10", su, job["seed"])
    viol, samples = [], []
    stats = {"probes": 0, "accepted": 0, "rejected": 0, "roundtrips": 0, "by_decoder": {}, "len_probes": 0,
             "alias_probes": 0, "alias_accepted_self_reencoding": 0, "tag_probes": 0}
    seen_nontrivial = set()
    evals = 0
    with okv.Session(su) as s:
        sz = s.sz
        worlds = []
        for w in range(2 if tier == "quick" else 4):
            ids = [(None, None, None), (b"alice", b"srv", b"ctx")][w % 2]
            c, st, reg, lg = proto.corpus(s, proto.H("c10", su, job["seed"], w), pw=b"pw-%d" % w, cred=b"cred-%d" % w,
                                          id_u=ids[0], id_s=ids[1], ctx=ids[2], tag="w%d" % w)
            if c is None:
                return {"evals": 0, "nontrivial": 0, "samples": [], "violations": [],
                        "inconclusive": ["could not build a valid corpus (honest flow failed) - C01 matter"], "stats": {}}
            worlds.append(c)

        def probe(kind, x, what):
            nonlocal evals
            evals += 1
            stats["probes"] += 1
            r = s.de(kind, x, out="tmp")
            bd = stats["by_decoder"].setdefault(kind, {"accepted": 0, "rejected": 0})
            if r.get("panic") or r.get("died"):
                viol.append({"sig": "C10 %s decoder crashed" % kind, "what": "decoder %s panicked/died on %s (%s): %s" % (kind, proto.short(x, 80), what, dict(r))})
                return None
            if r.ok:
                stats["accepted"] += 1
                bd["accepted"] += 1
                y = bytes.fromhex(r.re)
                seen_nontrivial.add((kind, what if len(what) < 40 else what[:40]))
                if y != x:
                    sig = classify(sz, kind, x, y)
                    viol.append({"sig": "C10 " + sig,
                                 "what": "%s: %s::deserialize accepted %s (%s) but re-encodes as %s" % (su, kind, x.hex(), what, y.hex()),
                                 "kind": kind, "input": x.hex(), "reencoded": y.hex(), "mutation": what})
                return True
            stats["rejected"] += 1
            bd["rejected"] += 1
            return False

        for wi, c in enumerate(worlds):
            for kind in proto.KINDS11:
                v = c[kind]
                # (e) valid encoding: accepted, re-encodes to itself, decode(encode(o)) == o
                r = s.de(kind, v, out="a")
                evals += 1
                if not r.ok:
                    viol.append({"sig": "C10 %s valid encoding rejected" % kind, "what": "%s: valid %s rejected: %s" % (su, kind, dict(r))})
                    continue
                if bytes.fromhex(r.re) != v:
                    viol.append({"sig": "C10 %s valid encoding re-encodes differently" % kind,
                                 "what": "%s: %s %s -> %s" % (su, kind, v.hex(), r.re)})
                r2 = s.de(kind, bytes.fromhex(r.re), out="b")
                e = s.cmd("eq", a="a", b="b")
                stats["roundtrips"] += 1
                if not (r2.ok and e.eq):
                    viol.append({"sig": "C10 %s decode(encode(o)) != o" % kind, "what": "%s %s" % (su, kind)})
                # encoding followed by decoding is the identity also for the serde encodings of the same object
                for codec in ("bincode", "json"):
                    e1 = s.ser("a", codec)
                    evals += 1
                    if not e1.ok:
                        viol.append({"sig": "C10 %s does not serialize via %s" % (kind, codec), "what": "%s: %s" % (su, e1.get("err"))})
                        continue
                    d1 = s.de(kind, e1.data if codec == "json" else bytes.fromhex(e1.data), codec=codec, out="c")
                    stats["roundtrips"] += 1
                    if not d1.ok:
                        viol.append({"sig": "C10 %s: decode(encode(o)) fails via %s" % (kind, codec), "what": "%s: %s" % (su, d1.get("err"))})
                    elif bytes.fromhex(d1.re) != v or not s.cmd("eq", a="a", b="c").eq:
                        viol.append({"sig": "C10 %s: decode(encode(o)) != o via %s" % (kind, codec), "what": "%s: native form %s -> %s" % (su, v.hex(), d1.re)})
                # (a) all lengths
                other = worlds[(wi + 1) % len(worlds)][kind]
                maxext = 64 if (tier == "thorough" or wi == 0) else 8
                for L in range(0, len(v)):
                    probe(kind, v[:L], "truncated to %d" % L)
                    stats["len_probes"] += 1
                for ext in range(1, maxext + 1):
                    probe(kind, v + bytes(ext), "extended by %d zero bytes" % ext)
                    probe(kind, v + bytes(rnd.randrange(256) for _ in range(ext)), "extended by %d random bytes" % ext)
                    stats["len_probes"] += 2
                # a byte inserted / removed INSIDE the encoding (at every field boundary; thorough: at every offset): the total
                # length changes by one although nothing was appended at the end
                bounds = sorted({o_ for _, o_, _, _ in sz.fields(kind)} | {o_ + l_ for _, o_, l_, _ in sz.fields(kind)})
                offs = range(len(v) + 1) if tier == "thorough" and wi == 0 else bounds
                for o_ in offs:
                    for ins in (b"\x00", b"\x01", b"\x02", b"\xff", v[o_ - 1:o_] or b"\x03"):
                        probe(kind, v[:o_] + ins + v[o_:], "byte 0x%s inserted at offset %d" % (ins.hex(), o_))
                        stats["len_probes"] += 1
                    if o_ < len(v):
                        probe(kind, v[:o_] + v[o_ + 1:], "byte at offset %d removed" % o_)
                        stats["len_probes"] += 1
                # the same fields in another order (adjacent fields exchanged, whole encoding with its halves exchanged)
                fl_ = sz.fields(kind)
                for i_ in range(len(fl_) - 1):
                    (n1, o1, l1, _), (n2, o2, l2, _) = fl_[i_], fl_[i_ + 1]
                    x_ = v[:o1] + v[o2:o2 + l2] + v[o1:o1 + l1] + v[o2 + l2:]
                    if x_ != v:
                        probe(kind, x_, "fields %s and %s in exchanged order" % (n1, n2))
                probe(kind, v + other, "followed by a second valid encoding")
                probe(kind, v + v[-1:], "last byte repeated")
                probe(kind, v[:1] + v, "first byte duplicated")
                # (b) every value of first/last byte of every group-element / scalar field
                for name, off, ln, cls in sz.fields(kind):
                    if cls not in "ESPK":
                        continue
                    for o in (off, off + ln - 1):
                        r = s.cmd("sweep_de", kind=kind, base=v, vals="all", **{"from": o, "to": o + 1})
                        evals += 255
                        stats["probes"] += 255
                        stats["tag_probes"] += 255
                        stats["accepted"] += r.out.count("r") + r.out.count("X")
                        stats["rejected"] += r.out.count("e")
                        if r.out.count("r"):
                            seen_nontrivial.add((kind, "%s byte %d all values" % (name, o - off)))
                        for nt in r.notable:
                            if "panic" in nt:
                                viol.append({"sig": "C10 %s decoder crashed" % kind, "what": "%s %s off %d: %s" % (su, kind, nt["off"], nt)})
                                continue
                            x = bytearray(v)
                            x[nt["off"]] = nt["val"]
                            y = bytes.fromhex(nt["re"])
                            viol.append({"sig": "C10 " + classify(sz, kind, bytes(x), y),
                                         "what": "%s: %s::deserialize accepted %s (%s byte %d := 0x%02x) but re-encodes as %s" % (
                                             su, kind, bytes(x).hex(), name, nt["off"] - off, nt["val"], nt["re"]),
                                         "kind": kind, "input": bytes(x).hex(), "reencoded": nt["re"]})
                # (c) substitutions at every offset
                if wi == 0 or tier == "thorough":
                    vals = "all" if tier == "thorough" and wi == 0 else None
                    if vals:
                        r = s.cmd("sweep_de", kind=kind, base=v, vals="all")
                        ncase = 255 * len(v)
                    else:
                        r = s.cmd("sweep_de", kind=kind, base=v, mode="xor", vals=[0x01, 0x80, rnd.randrange(2, 256)])
                        ncase = 3 * len(v)
                    evals += ncase
                    stats["probes"] += ncase
                    acc = r.out.count("r") + r.out.count("X")
                    stats["accepted"] += acc
                    stats["rejected"] += r.out.count("e")
                    bd = stats["by_decoder"].setdefault(kind, {"accepted": 0, "rejected": 0})
                    bd["accepted"] += acc
                    bd["rejected"] += r.out.count("e")
                    if acc:
                        seen_nontrivial.add((kind, "substitutions w%d" % wi))
                    for nt in r.notable:
                        if "panic" in nt:
                            viol.append({"sig": "C10 %s decoder crashed" % kind, "what": "%s %s: %s" % (su, kind, nt)})
                            continue
                        x = bytearray(v)
                        x[nt["off"]] = nt["val"]
                        y = bytes.fromhex(nt["re"])
                        viol.append({"sig": "C10 " + classify(sz, kind, bytes(x), y),
                                     "what": "%s: %s::deserialize accepted %s (offset %d := 0x%02x) but re-encodes as %s" % (
                                         su, kind, bytes(x).hex(), nt["off"], nt["val"], nt["re"]),
                                     "kind": kind, "input": bytes(x).hex(), "reencoded": nt["re"]})
                # (d) crafted non-reduced representatives, field by field
                if wi == 0:
                    for name, off, ln, cls in sz.fields(kind):
                        if cls == "P" and sz.ke == "x25519":
                            # Curve25519 keys shifted by a small-order point: valid, different keys that a decoder which
                            # "normalises" its input would map onto the genuine one
                            for var in c25519.x_torsion_variants(v[off:off + ln]):
                                stats["alias_probes"] += 1
                                probe(kind, v[:off] + var + v[off + ln:], "%s := key shifted by a small-order point" % name)
                        if cls in "EP":
                            grp = sz.oprf if cls == "E" else sz.ke
                            for can, aliases in small_alias_elems(grp):
                                base = v[:off] + can + v[off + ln:]
                                ok = probe(kind, base, "%s := small canonical element" % name)
                                for al in aliases:
                                    stats["alias_probes"] += 1
                                    acc = probe(kind, v[:off] + al + v[off + ln:], "%s := non-reduced alias of a valid element" % name)
                                    if acc:
                                        stats["alias_accepted_self_reencoding"] += 1
                        elif cls in "SK":
                            grp = sz.oprf if cls == "S" else sz.ke
                            for al in scalar_aliases(grp, v[off:off + ln]):
                                stats["alias_probes"] += 1
                                probe(kind, v[:off] + al + v[off + ln:], "%s := scalar + k*order" % name)
                            # scalar 1 and its alias 1+order (always fits)
                            if grp in CURVES:
                                one = (1).to_bytes(ln, "big")
                                al = (1 + CURVES[grp].n).to_bytes(ln, "big") if 1 + CURVES[grp].n < 256 ** ln else None
                            elif grp == "r255":
                                one = (1).to_bytes(32, "little")
                                al = (1 + c25519.L).to_bytes(32, "little")
                            else:
                                one, al = None, None
                            if one:
                                probe(kind, v[:off] + one + v[off + ln:], "%s := scalar 1" % name)
                            if al:
                                stats["alias_probes"] += 1
                                probe(kind, v[:off] + al + v[off + ln:], "%s := 1 + order" % name)
            s.cmd("drop", names=["a", "b", "tmp"])
        # (f) the server setup decoder instantiated with externally held keys (ServerSetup<CS, S>): its encoding is
        # seed || S::serialize() || stand-in key with S::Len = Nsk (ExtKey), 12 and 80 bytes (HndKey handles). One fixed
        # length, encode-then-decode is the identity, every other length is refused.
        if worlds:
            xsk = s.cmd("g_derive", seed=(proto.H("c10x", su, job["seed"]) * 3)[:sz.nsk])
            for kind, mk, hlen in (("setupx", dict(ext=True), sz.nsk), ("setuphs", dict(hnd="short"), 12), ("setuphl", dict(hnd="long"), 80)):
                rng = s.rng("xr", proto.H("c10xr", su, job["seed"]))
                st = s.cmd("setup_new_with_key", rng=rng, sk=bytes.fromhex(xsk.sk), out="xs", **mk)
                evals += 1
                if not st.ok:
                    viol.append({"sig": "C10 %s cannot be built" % kind, "what": "%s: %s" % (su, dict(st))})
                    continue
                v = bytes.fromhex(st.ser)
                if len(v) != sz.nh + hlen + sz.nsk:
                    viol.append({"sig": "C10 %s encoding has the wrong length" % kind, "what": "%s: %d bytes, layout says %d+%d+%d" % (su, len(v), sz.nh, hlen, sz.nsk)})
                r = s.de(kind, v, out="a")
                stats["roundtrips"] += 1
                if not r.ok:
                    viol.append({"sig": "C10 %s: decode(encode(o)) fails" % kind, "what": "%s: %s::deserialize refuses the %d bytes its own serialize produced: %s" % (
                        su, kind, len(v), r.get("err") or r.get("panic"))})
                    continue
                if bytes.fromhex(r.re) != v:
                    viol.append({"sig": "C10 %s valid encoding re-encodes differently" % kind, "what": "%s: %s -> %s" % (su, v.hex(), r.re)})
                for L in range(0, len(v)):
                    probe(kind, v[:L], "truncated to %d" % L)
                    stats["len_probes"] += 1
                for ext in range(1, 65):
                    probe(kind, v + bytes(ext), "extended by %d zero bytes" % ext)
                    stats["len_probes"] += 1
                for o_ in (0, sz.nh, sz.nh + hlen, len(v)):
                    probe(kind, v[:o_] + b"\x00" + v[o_:], "byte 0x00 inserted at offset %d" % o_)
                    if o_ < len(v):
                        probe(kind, v[:o_] + v[o_ + 1:], "byte at offset %d removed" % o_)
                # the direct-key layout (two Nsk-byte key fields) is not an encoding of a handle-key setup
                if hlen != sz.nsk:
                    probe(kind, worlds[0]["setup"], "a direct-key setup encoding (key field of Nsk bytes)")
                stats["ext_setup_decoders"] = stats.get("ext_setup_decoders", 0) + 1
            s.cmd("drop", names=["a", "xs", "tmp"])
        if worlds:
            samples.append({"suite": su, "decoder": "cresp", "valid": worlds[0]["cresp"].hex(),
                            "mutation_examples": ["truncated to %d" % (len(worlds[0]["cresp"]) - 1), "extended by 1 zero bytes",
                                                  "evaluated byte 0 := all 256 values", "server_e_pk := non-reduced alias"]})
    return {"evals": evals, "nontrivial": len(seen_nontrivial), "samples": samples, "violations": viol, "inconclusive": [],
            "stats": stats}


def floors(tier, stats, results):
    out = []
    for k in proto.KINDS11:
        bd = stats.get("by_decoder", {}).get(k, {})
        if bd.get("rejected", 0) < 20:
            out.append("decoder %s: fewer than 20 rejected probes observed" % k)
    if stats.get("roundtrips", 0) < 20 * 11:
        out.append("fewer than one round trip per suite and decoder")
    if stats.get("ext_setup_decoders", 0) < 20 * 3:
        out.append("external-key server setup decoders (3 key kinds) not exercised on every suite")
    for k in ("setupx", "setuphs", "setuphl"):
        if stats.get("by_decoder", {}).get(k, {}).get("rejected", 0) < 20:
            out.append("decoder %s: fewer than 20 rejected probes observed" % k)
    return out
