"""C14 - the OPRF is oblivious and keyed per credential.

Relations between recorded runs: the masking key (bytes [Npk, Npk+Nh) of the upload) depends on
(password, OPRF seed, credential id, KSF) only - never on the blinding randomness; the request is
different every time; changing password / credential id / seed changes the result; the server's
evaluation is a deterministic function of (seed, credential id, request) alone, independent of
its static key, of any password file and of its RNG state, and equals the model's k * blinded.
"""
from . import okv, proto
from .refmodel import selftest
from .refmodel.opaque import Opaque

LEVEL = "exploration"
RULE = ("per suite: passwords x credential ids (empty, 0x00, prefixes of one another, 100 KiB) x setups; for each, pairs "
        "of independent blinding tapes (and equal envelope tapes), single-parameter changes, repeated evaluations of one "
        "request under different records / static keys / RNG states; non-trivial = a pair of runs whose relation was "
        "evaluated; distinct = distinct (suite, parameters, relation)")
ASSUMPTIONS = ["'unrelated' is observed as inequality (plus a recorded bit-distance statistic), nothing stronger",
               "evaluation elements are additionally recomputed by the reference model"]


def jobs(tier, seed):
    return [{"suite": su, "seed": seed, "tier": tier, "cost": okv.suite_cost(su)} for su in okv.SUITES20]


def run_job(job):
    ok, detail = selftest.run()
    if not ok:
        return {"evals": 0, "nontrivial": 0, "samples": [], "violations": [], "inconclusive": [detail], "stats": {}}
    su, tier = job["suite"], job["tier"]
    rnd = proto.pyrng("c14", su, job["seed"])
    sz = okv.Sizes(su)
    m = Opaque(sz.oprf, sz.ke)
    viol, samples = [], []
    stats = {"reblind_pairs": 0, "param_changes": 0, "eval_determinism": 0, "model_beta": 0, "bit_distance_sum": 0, "bit_distance_n": 0}
    evals = 0
    bx = bytes.fromhex

    def V(sig, what):
        viol.append({"sig": "C14 " + sig, "what": "%s: %s" % (su, what)})

    def mk(upl):
        return bx(upl)[sz.npk:sz.npk + sz.nh]

    with okv.Session(su) as s:
        rng = s.rng("srv", proto.H("c14", su, job["seed"]))
        sa = s.cmd("setup_new", rng=rng, out="S")
        sb = s.cmd("setup_new", rng=rng, out="S2")
        A = bx(sa.ser)
        B = bx(sb.ser)
        # same OPRF seed, other static key
        s.de("setup", A[:sz.nh] + B[sz.nh:], out="S_otherkey")
        seed_a = A[:sz.nh]
        pws = [b"", b"p", b"correct horse", b"\x00", bytes(rnd.randrange(256) for _ in range(40))]
        creds = [b"", b"\x00", b"u", b"us", b"user", b"user\x00", b"OprfKey", bytes(rnd.randrange(256) for _ in range(64)), b"\x09" * 100000]
        if tier == "quick":
            pws = pws[:4]
        n = 0

        s.cmd("ksf_new", id="k3", param=3)
        s.cmd("ksf_new", id="k1", param=okv.HKSF_DEFAULT_PARAM)

        def register(pw, cred, setup, blind_seed, env_seed, idu=None, ids=None, ksf=None):
            nonlocal evals
            s.rng("b", blind_seed)
            s.rng("e", env_seed)
            a = s.cmd("creg_start", rng="b", pw=pw, out_state="t.cs", out_msg="t.rq")
            b = s.cmd("sreg_start", setup=setup, req="t.rq", cred=cred, out="t.rr")
            c = s.cmd("creg_finish", rng="e", state="t.cs", pw=pw, resp="t.rr", id_u=idu, id_s=ids, ksf=ksf, out="t.up")
            evals += 3
            if a.failed or b.failed or c.failed:
                V("control: registration failed", str([dict(x) for x in (a, b, c) if x.failed]))
                return None
            return {"rreq": a.msg, "rresp": b.msg, "rupl": c.msg, "export": c.export_key}

        for pw in pws:
            for cred in creds:
                n += 1
                base = register(pw, cred, "S", proto.H("b1", n), proto.H("e1", n))
                same_env = register(pw, cred, "S", proto.H("b2", n), proto.H("e1", n))
                other_env = register(pw, cred, "S", proto.H("b3", n), proto.H("e2", n))
                if not (base and same_env and other_env):
                    continue
                stats["reblind_pairs"] += 2
                if base["rreq"] == same_env["rreq"] or base["rreq"] == other_env["rreq"]:
                    V("registration request repeats under independent blinding tapes", base["rreq"])
                if mk(base["rupl"]) != mk(same_env["rupl"]) or mk(base["rupl"]) != mk(other_env["rupl"]):
                    V("masking key depends on the blinding randomness", "pw %s cred %s: %s vs %s vs %s" % (proto.short(pw), proto.short(cred), mk(base["rupl"]).hex(), mk(same_env["rupl"]).hex(), mk(other_env["rupl"]).hex()))
                if base["rupl"] != same_env["rupl"] or base["export"] != same_env["export"]:
                    V("upload / export key depend on the blinding randomness (equal envelope tape)", "pw %s cred %s" % (proto.short(pw), proto.short(cred)))
                if base["rresp"][:2 * sz.noe] == same_env["rresp"][:2 * sz.noe]:
                    V("evaluation elements equal for different blinded requests", base["rresp"])
                # evaluation = model's k * blinded
                k = m.oprf_key(seed_a, cred)
                beta = m.oprf.G.encode_elem(m.oprf.blind_evaluate(k, m.oprf.G.decode_elem(bx(base["rreq"]))))
                stats["model_beta"] += 1
                if beta != bx(base["rresp"])[:sz.noe]:
                    V("evaluation element differs from the model's k*blinded", "got %s want %s" % (base["rresp"][:2 * sz.noe], beta.hex()))
                # single-parameter changes (same tapes)
                for what, (p2, c2, s2) in (("password", (pw + b"!", cred, "S")), ("credential id", (pw, cred + b"\x00", "S")), ("OPRF seed", (pw, cred, "S2"))):
                    alt = register(p2, c2, s2, proto.H("b1", n), proto.H("e1", n))
                    if not alt:
                        continue
                    stats["param_changes"] += 1
                    d = sum(bin(x ^ y).count("1") for x, y in zip(mk(base["rupl"]), mk(alt["rupl"])))
                    stats["bit_distance_sum"] += d
                    stats["bit_distance_n"] += 1
                    if mk(base["rupl"]) == mk(alt["rupl"]):
                        V("masking key unchanged when the %s changes" % what, "pw %s cred %s" % (proto.short(pw), proto.short(cred)))
                    if base["export"] == alt["export"]:
                        V("export key unchanged when the %s changes" % what, "pw %s cred %s" % (proto.short(pw), proto.short(cred)))
                # the key-stretching function is the fourth (and last) thing the result depends on: other parameters, other
                # masking key; the default's parameters passed explicitly, the same one
                alt = register(pw, cred, "S", proto.H("b1", n), proto.H("e1", n), ksf="k3")
                same = register(pw, cred, "S", proto.H("b1", n), proto.H("e1", n), ksf="k1")
                if alt and same:
                    stats["param_changes"] += 1
                    stats["ksf_changes"] = stats.get("ksf_changes", 0) + 1
                    if mk(base["rupl"]) == mk(alt["rupl"]):
                        V("masking key unchanged when the key-stretching function changes", "pw %s cred %s" % (proto.short(pw), proto.short(cred)))
                    if base["export"] == alt["export"]:
                        V("export key unchanged when the key-stretching function changes", "pw %s cred %s" % (proto.short(pw), proto.short(cred)))
                    if same["rupl"] != base["rupl"] or same["export"] != base["export"]:
                        V("result depends on whether the default key-stretching parameters are passed explicitly", "pw %s cred %s" % (proto.short(pw), proto.short(cred)))
                # static key does not enter the evaluation
                ok_ = register(pw, cred, "S_otherkey", proto.H("b1", n), proto.H("e1", n))
                if ok_:
                    if ok_["rresp"][:2 * sz.noe] != base["rresp"][:2 * sz.noe]:
                        V("evaluation depends on the server's static key", "pw %s cred %s" % (proto.short(pw), proto.short(cred)))
                    if mk(ok_["rupl"]) != mk(base["rupl"]):
                        V("masking key depends on the server's static key", "pw %s cred %s" % (proto.short(pw), proto.short(cred)))
                if len(samples) < 1:
                    samples.append({"suite": su, "pw": proto.short(pw), "cred": proto.short(cred), "request_1": base["rreq"], "request_2": same_env["rreq"],
                                    "masking_key_1": mk(base["rupl"]).hex(), "masking_key_2": mk(same_env["rupl"]).hex()})
        # determinism of the evaluation: same request, repeated; different records; RNG state irrelevant
        s.rng("b", proto.H("bb"))
        a = s.cmd("creg_start", rng="b", pw=b"pw", out_state="d.cs", out_msg="d.rq")
        r1 = s.cmd("sreg_start", setup="S", req="d.rq", cred=b"id", out="d.r1")
        rng2 = s.rng("noise", b"n")
        s.cmd("setup_new", rng=rng2, out="junk")
        r2 = s.cmd("sreg_start", setup="S", req="d.rq", cred=b"id", out="d.r2")
        evals += 4
        if r1.msg != r2.msg:
            V("ServerRegistration::start is not deterministic", "%s vs %s" % (r1.msg, r2.msg))
        f1 = proto.register(s, rng, "S", b"pw1", b"id", wire=False, tag="f1")
        f2 = proto.register(s, rng, "S", b"pw2", b"id", wire=False, tag="f2")
        for i in range(6 if tier == "quick" else 24):
            c = s.cmd("clogin_start", rng="b", pw=b"pw", out_state="q.cl", out_msg="q.cq")
            betas = {}
            cid = [b"id", b"", b"\x00", b" id\n", b"L" * 200][i % 5]
            for lab, setup, fh, kw in (("none", "S", None, {}), ("R1", "S", "f1.file", {}), ("R2", "S", "f2.file", {}), ("none@otherkey", "S_otherkey", None, {}),
                                       ("R1@otherkey", "S_otherkey", "f1.file", {}), ("R1+identities", "S", "f1.file", {"id_u": b"alice", "id_s": b"srv"}),
                                       ("none+identities+ctx", "S", None, {"id_u": b"alice", "id_s": b"srv", "ctx": b"ctx"}), ("R2+client-id", "S", "f2.file", {"id_u": b"bob"})):
                r = s.cmd("slogin_start", rng=rng, setup=setup, file=fh, req="q.cq", cred=cid, out_state="q.sl", out_msg="q.cr", **kw)
                evals += 1
                betas[lab] = r.msg[:2 * sz.noe] if r.ok else None
            s.de("rreq", bx(c.msg)[:sz.noe], out="q.rq")
            rr = s.cmd("sreg_start", setup="S", req="q.rq", cred=cid, out="q.rr")
            betas["registration"] = rr.msg[:2 * sz.noe]
            betas["model"] = m.oprf.G.encode_elem(m.oprf.blind_evaluate(m.oprf_key(seed_a, cid), m.oprf.G.decode_elem(bx(c.msg)[:sz.noe]))).hex()
            stats["eval_determinism"] += 1
            if len(set(betas.values())) != 1:
                V("evaluation of one request differs across records / static keys / paths", str(betas))
        # degenerate and restored seeds: a setup restored from bytes evaluates with exactly the seed stored in it, whatever its
        # static key (zero / constant / one-bit-different seeds; two different static keys each)
        c = s.cmd("clogin_start", rng="b", pw=b"pw", out_state="z.cl", out_msg="z.cq")
        s.de("rreq", bx(c.msg)[:sz.noe], out="z.rq")
        blinded = m.oprf.G.decode_elem(bx(c.msg)[:sz.noe])
        for si, sd in enumerate([bytes(sz.nh), b"\xff" * sz.nh, b"\x01" * sz.nh, bytes(sz.nh - 1) + b"\x01", seed_a[:-1] + bytes([seed_a[-1] ^ 1]), B[:sz.nh]]):
            betas = {}
            for lab, keys in (("keyA", A[sz.nh:]), ("keyB", B[sz.nh:])):
                d = s.de("setup", sd + keys, out="Z" + lab)
                evals += 1
                if not d.ok:
                    V("a valid setup with a degenerate OPRF seed is refused", "seed %s: %s" % (sd.hex(), d.get("err")))
                    continue
                if d.re != (sd + keys).hex():
                    V("restored setup does not keep the stored OPRF seed", "seed %s re-encoded as %s" % (sd.hex(), d.re[:2 * sz.nh]))
                rr = s.cmd("sreg_start", setup="Z" + lab, req="z.rq", cred=b"id", out="z.rr")
                lr = s.cmd("slogin_start", rng=rng, setup="Z" + lab, file=None, req="z.cq", cred=b"id", out_state="z.sl", out_msg="z.cr")
                evals += 2
                betas[lab + "/registration"] = rr.msg[:2 * sz.noe] if rr.ok else None
                betas[lab + "/login"] = lr.msg[:2 * sz.noe] if lr.ok else None
            betas["model"] = m.oprf.G.encode_elem(m.oprf.blind_evaluate(m.oprf_key(sd, b"id"), blinded)).hex()
            stats["eval_determinism"] += 1
            stats["degenerate_seeds"] = stats.get("degenerate_seeds", 0) + 1
            if len(set(betas.values())) != 1:
                V("evaluation under a restored seed differs across static keys / from the specification", "seed %s: %s" % (sd.hex(), betas))
    stats["suites"] = {su: stats["reblind_pairs"]}
    return {"evals": evals, "nontrivial": stats["reblind_pairs"] + stats["param_changes"] + stats["eval_determinism"], "samples": samples,
            "violations": viol, "inconclusive": [], "stats": stats}


def floors(tier, stats, results):
    missing = [x for x in okv.SUITES20 if stats.get("suites", {}).get(x, 0) < 40]
    out = ["fewer than 40 re-blinding pairs for suites %s" % missing] if missing else []
    if stats.get("ksf_changes", 0) < 20 * 20:
        out.append("fewer than 20 key-stretching-function changes per suite")
    if stats.get("degenerate_seeds", 0) < 6 * 20:
        out.append("degenerate / restored OPRF seeds not evaluated on every suite")
    return out
