"""C07 - sessions are fresh and isolated under adversarial message routing.

History + executable model: a bounded population (5 records incl. a shared password, a
re-registration and "none"; 4 client sessions incl. a wrong-password one; a server session for
every (request, record, credential id)) and a network adversary that delivers EVERY response to
EVERY client session and EVERY finalization (plus junk) to EVERY server session, in a seeded
random order consistent with data dependencies, all parties on one shared RNG. The monitor
computes the expected outcome of every delivery from provenance alone and compares.
"""
from . import okv, proto

LEVEL = "exploration"
RULE = ("per suite and world (identity mode in {default, client-only explicit, server-only explicit, both explicit, empty strings}, plus requests altered in transit and responses spliced from two sessions; "
        "credential ids short / sharing a 70-byte prefix / sharing a suffix, context on/off): 5 records, 4 client "
        "sessions, 60 server sessions, 240 response deliveries, every produced finalization + 3 junk strings to every "
        "server session; the routing cube is exhaustive per world, the call order is a seeded random linear extension; "
        "non-trivial = a delivery to a session other than the one the message was produced for, or a matched one; "
        "distinct = distinct (suite, world, message, recipient)")
ASSUMPTIONS = ["expected outcome is a predicate over provenance (request, record password, record credential id, effective identities, context)",
               "a client typing a password shared by two users legitimately completes as whichever of them the server serves (default identities); "
               "with explicit client identities the routing must be rejected",
               "distinctness of session keys relies on fresh nonces/ephemeral keys per start call, observed, not assumed"]
EXHAUSTIVE = {"quick": "all (response, client session) and (finalization, server session) deliveries of each world's bounded population",
              "thorough": "all (response, client session) and (finalization, server session) deliveries of each world's bounded population"}
JOB_TIMEOUT = {"quick": 900, "thorough": 7200}


def jobs(tier, seed):
    out = []
    for su in okv.SUITES20:
        n = 12 if tier == "quick" else 120
        shards = 1 if tier == "quick" else 4
        for sh in range(shards):
            out.append({"suite": su, "seed": seed, "tier": tier, "cost": okv.suite_cost(su) * n / shards, "worlds": list(range(sh * n // shards, (sh + 1) * n // shards))})
    for su in okv.MON_SUITES:
        out.append({"suite": su, "seed": seed, "tier": "quick", "cost": okv.suite_cost(su), "worlds": [0, 1], "mon": True})
    return out


def run_world(s, su, seed, wi, stats, viol, samples, mon_check=None):
    rnd = proto.pyrng("c07", su, seed, wi)
    sz = s.sz
    mode = ["default", "client-only", "server-only", "both", "empty-both", "empty-server"][wi % 6]
    credstyle = ["short", "long-prefix", "suffix"][(wi // 4 + wi) % 3]
    ctx = None if (wi // 2) % 2 == 0 else b"ctx-%d" % wi
    names = ["A", "B", "C"]
    if credstyle == "short":
        cred = {n: n.encode() for n in names}
    elif credstyle == "long-prefix":
        cred = {n: b"P" * 70 + n.encode() for n in names}
    else:
        cred = {n: n.encode() + b"@example.com/" + b"s" * 40 for n in names}
    idu = {n: (b"user:" + n.encode() if mode in ("client-only", "both") else (b"" if mode == "empty-both" else None)) for n in names}
    ids = b"the-server" if mode in ("server-only", "both") else (b"" if mode in ("empty-both", "empty-server") else None)
    pwA, pwB = b"password-A-%d" % wi, b"password-B-%d" % wi
    pws = {"A": pwA, "B": pwB, "C": pwA}
    rng = s.rng("shared", proto.H("c07", su, seed, wi))
    s.cmd("setup_new", rng=rng, out="S")
    ev = 1
    # records: A, B, C (shares A's password), A2 (re-registration of A), none
    records = {}
    for rn, user in (("A", "A"), ("B", "B"), ("C", "C"), ("A2", "A")):
        f = proto.register(s, rng, "S", pws[user], cred[user], id_u=idu[user], id_s=ids, wire=True, tag="rec" + rn)
        ev += 4
        if not f.ok:
            viol.append({"sig": "C07 control: registration failed", "what": "%s world %d: %s" % (su, wi, f.first_failure())})
            return ev
        records[rn] = {"h": f.file_h, "user": user, "pw": pws[user], "cred": cred[user], "idu": idu[user], "cpk": bytes.fromhex(f.rupl)[:sz.npk]}
    records["none"] = None
    # client sessions: who they claim to be determines the identity they pass at finish
    clients = {"c1": ("A", pwA), "c2": ("A", pwA), "c3": ("B", pwB), "c4": ("A", b"wrong-password")}
    # ---- build the op graph and run it in a random linear extension
    ops = []  # (id, deps, fn)
    state = {"creq": {}, "cresp": {}, "fin": {}, "ckey": {}, "accepted_by": {}, "skey": {}}
    hist = []

    def op_cstart(c):
        def f():
            r = s.cmd("clogin_start", rng=rng, pw=clients[c][1], out_state=c + ".cl", out_msg=c + ".cq")
            state["creq"][c] = r.msg if r.ok else None
            hist.append(("cstart", c, r))
        return f

    def op_sstart(c, rn, cu):
        sid = "%s|%s|%s" % (c, rn, cu)

        def f():
            if state["creq"].get(c) is None:
                return
            d = s.de("creq", bytes.fromhex(state["creq"][c]), out="q." + sid)
            rec = records[rn]
            r = s.cmd("slogin_start", rng=rng, setup="S", file=rec["h"] if rec else None, req="q." + sid, cred=cred[cu], ctx=ctx,
                      id_u=idu[cu], id_s=ids, out_state="sl." + sid, out_msg="cr." + sid)
            state["cresp"][sid] = r.msg if r.ok else None
            hist.append(("sstart", sid, r))
        return f

    def op_cfinish(c, sid):
        def f():
            if state["cresp"].get(sid) is None:
                return
            d = s.de("cresp", bytes.fromhex(state["cresp"][sid]), out="d." + sid + "." + c)
            if not d.ok:
                hist.append(("cfinish", (c, sid), d))
                return
            claimed = clients[c][0]
            r = s.cmd("clogin_finish", state=c + ".cl", pw=clients[c][1], resp="d." + sid + "." + c, ctx=ctx, id_u=idu[claimed], id_s=ids,
                      out="f." + sid + "." + c)
            hist.append(("cfinish", (c, sid), r))
            if r.ok:
                state["fin"][(c, sid)] = r.msg
                state["ckey"][(c, sid)] = r.session_key
            s.cmd("drop", names=["d." + sid + "." + c])
        return f

    sids = []
    for c in clients:
        ops.append((("cstart", c), [], op_cstart(c)))
    for c in clients:
        for rn in records:
            for cu in names:
                sid = "%s|%s|%s" % (c, rn, cu)
                sids.append((sid, c, rn, cu))
                ops.append((("sstart", sid), [("cstart", c)], op_sstart(c, rn, cu)))
    for sid, c0, rn, cu in sids:
        for c in clients:
            ops.append((("cfinish", c, sid), [("sstart", sid), ("cstart", c)], op_cfinish(c, sid)))
    done = set()
    pending = list(ops)
    rnd.shuffle(pending)
    order_sig = []
    while pending:
        ready = [i for i, (oid, deps, fn) in enumerate(pending) if all(d in done for d in deps)]
        # pick among the first few ready ops of the shuffled list: keeps long-range interleavings
        i = ready[rnd.randrange(min(len(ready), 40))]
        oid, deps, fn = pending.pop(i)
        fn()
        done.add(oid)
        if len(order_sig) < 12:
            order_sig.append(oid[0][0] + ":" + str(oid[1])[:10])
    # ---- judge client deliveries
    meta = {sid: (c0, rn, cu) for sid, c0, rn, cu in sids}
    for kind, key, r in hist:
        if kind == "cstart" and r.failed:
            viol.append({"sig": "C07 client start failed", "what": "%s: %s" % (su, dict(r))})
        if kind == "sstart" and r.failed:
            viol.append({"sig": "C07 server start failed", "what": "%s %s: %s" % (su, key, dict(r))})
        if mon_check:
            mon_check(r, "%s %s" % (kind, key))
        if kind != "cfinish":
            continue
        ev += 1
        c, sid = key
        c0, rn, cu = meta[sid]
        rec = records[rn]
        claimed, pw = clients[c]
        stats["client_deliveries"] += 1
        if rec is None:
            expect = False
            why = "no record"
        else:
            # effective client identity: at registration rec.idu or rec.cpk; server used idu[cu] or rec.cpk; client passes idu[claimed] or its own key (= rec.cpk if it opens the envelope)
            e_reg = rec["idu"] if rec["idu"] is not None else rec["cpk"]
            e_srv = idu[cu] if idu[cu] is not None else rec["cpk"]
            e_cli = idu[claimed] if idu[claimed] is not None else rec["cpk"]
            expect = (c == c0) and rec["pw"] == pw and rec["cred"] == cred[cu] and e_reg == e_srv == e_cli
            why = "request %s, password %s, cred %s, identities %s" % (c == c0, rec["pw"] == pw, rec["cred"] == cred[cu], e_reg == e_srv == e_cli)
        cross = (c != c0)
        stats["cross_deliveries"] += int(cross)
        got = bool(r.ok)
        case = {"suite": su, "world": wi, "mode": mode, "creds": credstyle, "client_session": c, "claimed_user": claimed,
                "response_of_server_session": {"request_of": c0, "record": rn, "cred_id_of": cu}, "expected_accept": expect, "why": why}
        if r.get("panic") or r.get("died"):
            viol.append({"sig": "C07 client finish crashed", "what": "%s: %s" % (case, dict(r))})
        elif got and not expect:
            viol.append({"sig": "C07 client accepted an unmatched conversation (%s)" % why,
                         "what": "ClientLogin::finish accepted a response outside a matched conversation: %s" % case})
        elif expect and not got:
            viol.append({"sig": "C07 matched conversation rejected by the client", "what": "%s: %s" % (case, r.err)})
        elif not got and r.err not in ("InvalidLoginError",):
            viol.append({"sig": "C07 client rejection with %s" % r.err, "what": str(case)})
        if got:
            stats["client_accepts"] += 1
        if len(samples) < 2 and cross and not got:
            samples.append(dict(case, outcome=r.err, first_ops_of_schedule=order_sig))
    # ---- the adversary also edits messages in transit: a request with one bit of its nonce flipped, and a response spliced
    # from two server sessions that answered the same request. Neither is a message any session produced.
    for c in ("c1", "c3"):
        claimed, pw = clients[c]
        rec = records[claimed]
        q = bytearray(bytes.fromhex(state["creq"][c]))
        q[sz.noe + 5] ^= 0x10
        d = s.de("creq", bytes(q), out="tq")
        r1 = s.cmd("slogin_start", rng=rng, setup="S", file=rec["h"], req="tq", cred=cred[claimed], ctx=ctx, id_u=idu[claimed], id_s=ids, out_state="tsl", out_msg="tcr")
        ev += 2
        if d.ok and r1.ok:
            r2 = s.cmd("clogin_finish", state=c + ".cl", pw=pw, resp="tcr", ctx=ctx, id_u=idu[claimed], id_s=ids, out="tcf")
            ev += 1
            stats["tampered_deliveries"] = stats.get("tampered_deliveries", 0) + 1
            if r2.ok:
                viol.append({"sig": "C07 client completed on the answer to a request that was altered in transit",
                             "what": "%s world %d (%s, ctx %s): client %s accepted a response generated for its request with one nonce bit flipped" % (su, wi, mode, proto.short(ctx), c)})
                s.de("cfin", bytes.fromhex(r2.msg), out="tf")
                r3 = s.cmd("slogin_finish", state="tsl", fin="tf")
                if r3.ok:
                    viol.append({"sig": "C07 server completed a session whose request was altered in transit", "what": "%s world %d (%s)" % (su, wi, mode)})
        # two answers of the server to the same (request, record, credential id): splice them
        ra = s.cmd("slogin_start", rng=rng, setup="S", file=rec["h"], req=c + ".cq", cred=cred[claimed], ctx=ctx, id_u=idu[claimed], id_s=ids, out_state="sa", out_msg="ma")
        rb = s.cmd("slogin_start", rng=rng, setup="S", file=rec["h"], req=c + ".cq", cred=cred[claimed], ctx=ctx, id_u=idu[claimed], id_s=ids, out_state="sb", out_msg="mb")
        ev += 2
        if ra.ok and rb.ok:
            A_, B_ = bytes.fromhex(ra.msg), bytes.fromhex(rb.msg)
            cut = sz.noe + 32 + sz.masked
            for lab, x in (("credential part of session B + key-exchange part of session A", B_[:cut] + A_[cut:]),
                           ("masking nonce of B in A", A_[:sz.noe] + B_[sz.noe:sz.noe + 32] + A_[sz.noe + 32:]),
                           ("server nonce of B in A", A_[:cut] + B_[cut:cut + 32] + A_[cut + 32:])):
                d = s.de("cresp", x, out="sx")
                if not d.ok:
                    continue
                r2 = s.cmd("clogin_finish", state=c + ".cl", pw=pw, resp="sx", ctx=ctx, id_u=idu[claimed], id_s=ids, out="sxf")
                ev += 2
                stats["tampered_deliveries"] = stats.get("tampered_deliveries", 0) + 1
                if r2.ok:
                    viol.append({"sig": "C07 client completed on a response spliced from two server sessions",
                                 "what": "%s world %d (%s, ctx %s): %s accepted by client %s" % (su, wi, mode, proto.short(ctx), lab, c)})
    # ---- server deliveries: every finalization + junk to every server session
    fins = [(k, bytes.fromhex(v)) for k, v in state["fin"].items()]
    nh = sz.nh
    completed = {}
    some_fin = fins[0][1] if fins else bytes(nh)
    junk = [("zero", bytes(nh)), ("random", bytes(rnd.randrange(256) for _ in range(nh))), ("bitflip", bytes([some_fin[0] ^ 1]) + some_fin[1:])]
    deliveries = [(("fin", k), b) for k, b in fins] + [(("junk", n), b) for n, b in junk]
    targets = [sid for sid, *_ in sids if state["cresp"].get(sid)]
    rnd.shuffle(targets)
    # in a third of the worlds every pending server session is saved and restored (native / bincode / JSON) before any
    # finalization is delivered, as a server that keeps its sessions in a store would do
    persist = [None, "native", None, "bincode", None, "json"][(wi // 2) % 6]
    stats["persisted_worlds"] = stats.get("persisted_worlds", 0) + int(persist is not None)
    for sid in targets:
        if persist:
            d = s.ser("sl." + sid, persist)
            r = s.de("slogin", d.data if persist == "json" else bytes.fromhex(d.data), codec=persist, out="sl." + sid) if d.ok else d
            ev += 2
            if not r.ok:
                viol.append({"sig": "C07 pending server session does not survive a %s save/restore" % persist, "what": "%s world %d: %s" % (su, wi, dict(r))})
                continue
        for (kind, k), b in deliveries:
            s.de("cfin", b, out="x.f")
            r = s.cmd("slogin_finish", state="sl." + sid, fin="x.f")
            ev += 1
            stats["server_deliveries"] += 1
            expect = kind == "fin" and k[1] == sid
            if kind == "fin" and k[1] != sid:
                stats["cross_deliveries"] += 1
            if r.ok and not expect:
                viol.append({"sig": "C07 server accepted a finalization from another session / junk",
                             "what": "%s world %d: server session %s accepted %s %s" % (su, wi, sid, kind, k)})
            elif expect and not r.ok:
                viol.append({"sig": "C07 matched finalization rejected by the server", "what": "%s world %d: %s <- %s: %s" % (su, wi, sid, k, r.err)})
            elif not r.ok and r.err != "InvalidLoginError":
                viol.append({"sig": "C07 server rejection with %s" % r.err, "what": "%s %s" % (su, sid)})
            if r.ok and expect:
                completed[(k[0], sid)] = r.session_key
                if r.session_key != state["ckey"][k]:
                    viol.append({"sig": "C07 keys differ within a completed session", "what": "%s world %d: %s client %s server %s" % (su, wi, k, state["ckey"][k], r.session_key)})
    stats["completed_sessions"] += len(completed)
    keys = list(completed.values())
    if len(set(keys)) != len(keys):
        dup = [k for k in completed if keys.count(completed[k]) > 1]
        viol.append({"sig": "C07 two distinct completed sessions share a session key", "what": "%s world %d: %s" % (su, wi, dup)})
    stats["distinct_session_keys"] += len(set(keys))
    # freshness of per-start values: nonces and ephemeral keys of distinct start calls differ
    cn = [bytes.fromhex(v)[sz.noe:sz.noe + 32] for v in state["creq"].values() if v]
    ce = [bytes.fromhex(v)[sz.noe + 32:] for v in state["creq"].values() if v]
    off = sz.noe + 32 + sz.masked
    sn = [bytes.fromhex(v)[off:off + 32] for v in state["cresp"].values() if v]
    se = [bytes.fromhex(v)[off + 32:off + 32 + sz.npk] for v in state["cresp"].values() if v]
    mn = [bytes.fromhex(v)[sz.noe:sz.noe + 32] for v in state["cresp"].values() if v]
    for nm, lst in (("client nonce", cn), ("client ephemeral key", ce), ("server nonce", sn), ("server ephemeral key", se), ("masking nonce", mn)):
        if len(set(lst)) != len(lst):
            viol.append({"sig": "C07 %s repeated across start calls" % nm, "what": "%s world %d" % (su, wi)})
    allv = cn + sn + mn
    if len(set(allv)) != len(allv):
        viol.append({"sig": "C07 a nonce value repeated across roles", "what": "%s world %d" % (su, wi)})
    stats["schedules"] += 1
    s.cmd("clear")
    return ev


def run_job(job):
    su = job["suite"]
    viol, samples = [], []
    stats = {"client_deliveries": 0, "server_deliveries": 0, "cross_deliveries": 0, "client_accepts": 0, "completed_sessions": 0,
             "distinct_session_keys": 0, "schedules": 0, "dh_events": 0}
    evals = 0
    mon = None
    if job.get("mon"):
        from .c11 import check_dh
        from .refmodel.groups import KeGroupModel
        ke = KeGroupModel(okv.Sizes(su).ke)
        st11 = {"dh_events": 0, "dh_bad": 0}

        def mon(r, where):
            check_dh(su, ke, r.get("dh"), viol, st11, where)
            stats["dh_events"] = st11["dh_events"]
    with okv.Session(su) as s:
        for wi in job["worlds"]:
            evals += run_world(s, su, job["seed"], wi, stats, viol, samples, mon)
    stats["suites"] = {su: stats["client_deliveries"]}
    return {"evals": evals, "nontrivial": stats["client_deliveries"] + stats["server_deliveries"], "samples": samples, "violations": viol,
            "inconclusive": [], "stats": stats}


def floors(tier, stats, results):
    out = []
    missing = [x for x in okv.SUITES20 if stats.get("suites", {}).get(x, 0) < 4 * 240]
    if missing:
        out.append("fewer than 4 complete routing cubes for suites %s" % missing)
    if stats.get("completed_sessions", 0) < 20 * 4 * 5:
        out.append("fewer than 5 completed sessions per world")
    return out
