"""C16 - the export key is stable, separated and never leaves the client.

History monitor over worlds with several users, repeated logins, re-registrations and a second
server: every successful login returns the export key of the registration that created the record
it used (provenance); export keys of distinct registrations are pairwise distinct; no export key,
session key or password of >= 16 bytes occurs verbatim in any of the six message kinds or in the
password file (in-flight states are not scanned: the statement is about what is transmitted and
what the server stores).
"""
from . import okv, proto

LEVEL = "exploration"
RULE = ("per suite and world: users x {registration, re-registration with the same password, with a new password, on a "
        "second server} then logins in random interleaving with varying context / identities / tapes; non-trivial = a "
        "successful login whose export key was compared with its record's registration, or a (secret, message) pair "
        "scanned; distinct = distinct (suite, world, login) + distinct registrations")
ASSUMPTIONS = ["leak verdict = full-secret substring match; shorter windows are not judged",
               "in-flight client/server states are deliberately not scanned"]


def jobs(tier, seed):
    return [{"suite": su, "seed": seed, "tier": tier, "cost": okv.suite_cost(su)} for su in okv.SUITES20]


def run_job(job):
    su, tier = job["suite"], job["tier"]
    rnd = proto.pyrng("c16", su, job["seed"])
    viol, samples = [], []
    stats = {"registrations": 0, "logins": 0, "export_equalities": 0, "scanned_pairs": 0, "messages": 0, "secrets": 0}
    evals = 0
    bx = bytes.fromhex

    def V(sig, what):
        viol.append({"sig": "C16 " + sig, "what": "%s: %s" % (su, what)})

    with okv.Session(su) as s:
        for wi in range(1 if tier == "quick" else 25):
            rng = s.rng("r", proto.H("c16", su, job["seed"], wi))
            s.cmd("setup_new", rng=rng, out="S1")
            s.cmd("setup_new", rng=rng, out="S2")
            users = [("alice", b"alice's long password, >= 16 bytes"), ("bob", b"bob's password is also long"), ("carol", b"alice's long password, >= 16 bytes"),
                     ("dave", b"short"), ("erin", bytes(rnd.randrange(256) for _ in range(64)))]
            records = []   # dict(handle, user, pw, server, ids, export)
            messages = []  # (kind, bytes)
            secrets = []   # (label, bytes)
            nreg = 0
            plan = []
            for u, pw in users:
                plan.append((u, pw, "S1"))
            plan += [("alice", users[0][1], "S1"), ("alice", b"alice's brand new password!", "S1"), ("alice", users[0][1], "S2"), ("bob", users[1][1], "S2"),
                     ("bob", users[1][1], "S1")]
            if tier == "thorough":
                plan += [(u, pw, rnd.choice(["S1", "S2"])) for u, pw in users for _ in range(3)]
            # identities of notable shapes (as long as a public key of the group, of the other groups, a digest, 255/256 bytes)
            npk_ = s.sz.npk
            fixed_ids = {"frank": (b"F" * npk_, None), "grace": (None, b"G" * npk_), "heidi": (b"H" * npk_, b"h" * npk_), "ivan": (b"I" * 32, b"i" * 33),
                         "judy": (b"J" * 49, b"j" * 67), "karl": (b"K" * 64, b"k" * 48), "lena": (b"L" * 255, b"l" * 256)}
            plan += [(u_, b"password of " + u_.encode() + b", long enough", ("S1", "S2")[k_ % 2]) for k_, u_ in enumerate(sorted(fixed_ids))]
            for u, pw, srv in plan:
                nreg += 1
                ids = fixed_ids.get(u) or rnd.choice([(None, None), (u.encode(), None), (u.encode(), b"srv")])
                f = proto.register(s, rng, srv, pw, u.encode(), id_u=ids[0], id_s=ids[1], wire=bool(rnd.getrandbits(1)), tag="g%d" % nreg)
                evals += 4
                if not f.ok:
                    V("control: registration failed", str(f.first_failure()))
                    continue
                stats["registrations"] += 1
                records.append({"h": f.file_h, "user": u, "pw": pw, "srv": srv, "ids": ids, "export": f.export_key, "n": nreg})
                messages += [("registration request", bx(f.rreq)), ("registration response", bx(f.rresp)), ("registration upload", bx(f.rupl)), ("password file", bx(f.file))]
                secrets.append(("export key of registration %d" % nreg, bx(f.export_key)))
                if len(pw) >= 16:
                    secrets.append(("password of %s" % u, pw))
            # export keys of distinct registrations are pairwise distinct
            ek = [r["export"] for r in records]
            if len(set(ek)) != len(ek):
                dup = [(a["n"], b["n"]) for i, a in enumerate(records) for b in records[i + 1:] if a["export"] == b["export"]]
                V("two distinct registrations returned the same export key", "registrations %s (user/password/server: %s)" % (
                    dup, [(r["user"], proto.short(r["pw"]), r["srv"]) for r in records if r["n"] in dup[0]]))
            # registrations attempted while the caller's RNG is failing: on a correct library they do not complete (the RNG's
            # own panic surfaces); if they DO complete they are registrations like any other and their export keys must
            # be distinct too
            for k in range(2):
                s.rng("dying", proto.H("c16-dying", su, wi, k))
                a = s.cmd("creg_start", rng="dying", pw=users[0][1], out_state="dy.cs", out_msg="dy.rq")
                b = s.cmd("sreg_start", setup="S1", req="dy.rq", cred=b"alice", out="dy.rr")
                s.cmd("rng_fail", id="dying", at=1)
                c = s.cmd("creg_finish", rng="dying", state="dy.cs", pw=users[0][1], resp="dy.rr", out="dy.up")
                evals += 3
                stats["failing_rng_registrations"] = stats.get("failing_rng_registrations", 0) + 1
                if c.ok:
                    nreg += 1
                    records.append({"h": None, "user": "alice", "pw": users[0][1], "srv": "S1", "ids": (None, None), "export": c.export_key, "n": nreg, "dead_rng": True})
            ek = [r["export"] for r in records]
            if len(set(ek)) != len(ek):
                dup = [(a_["n"], b_["n"]) for i, a_ in enumerate(records) for b_ in records[i + 1:] if a_["export"] == b_["export"]]
                V("two distinct registrations returned the same export key (registrations completed while the RNG was failing)", "registrations %s" % dup)
            records = [r for r in records if not r.get("dead_rng")]
            # separation under IDENTICAL client randomness: with the same blind and the same envelope nonce, the export key
            # must still differ as soon as the password, the user (credential id) or the server differs
            base_users = [("alice", b"same password for everybody"), ("alicf", b"same password for everybody"), ("alice", b"same password for everybodz"),
                          ("P" * 57 + "alice", b"same password for everybody"), ("P" * 57 + "bob", b"same password for everybody"),
                          ("Q" * 25 + "A", b"pw"), ("Q" * 25 + "B", b"pw"), ("R" * 41 + "A", b"pw"), ("R" * 41 + "B", b"pw"), ("S" * 200 + "A", b"pw"), ("S" * 200 + "B", b"pw"), ("carol", b"pw"), ("carol\n", b"pw"), (" carol", b"pw"), ("carol ", b"pw"), ("", b"pw"), (" ", b"pw"), (b"\xff\x01", b"pw"), (b"\xfe\x02", b"pw"), (b"\x80", b"pw"), (b"\xc3\x28", b"pw"), (b"\x00", b"pw")]
            # an over-limit password must be refused (C12); should a registration with it complete nevertheless, it must not share
            # its export key with a registration under its digest, its truncation or its wrapped-length prefix
            import hashlib
            big = b"L" * 65535 + b"!"
            base_users += [("dora", big), ("dora", big[:65535]), ("dora", big[:1]), ("dora", hashlib.sha256(big).digest()), ("dora", hashlib.sha384(big).digest()),
                           ("dora", hashlib.sha512(big).digest())]
            same_tape = []
            # the two servers also in "restarted" form (setup saved to bytes and restored): a restored server is the SAME server
            for h_ in ("S1", "S2"):
                b_ = s.ser(h_).data
                s.de("setup", bytes.fromhex(b_), out=h_ + "r")
            for u, pw in base_users:
                for srv in ("S1", "S2", "S1r", "S2r"):
                    s.rng("fixed", proto.H("c16-fixed-client-tape", su, wi))
                    a = s.cmd("creg_start", rng="fixed", pw=pw, out_state="st.cs", out_msg="st.rq")
                    b = s.cmd("sreg_start", setup=srv, req="st.rq", cred=u if isinstance(u, bytes) else u.encode(), out="st.rr")
                    c = s.cmd("creg_finish", rng="fixed", state="st.cs", pw=pw, resp="st.rr", out="st.up")
                    evals += 3
                    if not (a.ok and b.ok and c.ok):
                        if len(pw) > 65535:
                            stats["over_limit_refused"] = stats.get("over_limit_refused", 0) + 1
                        else:
                            V("control: registration failed", str([dict(x) for x in (a, b, c) if x.failed])[:300])
                        continue
                    stats["registrations"] += 1
                    same_tape.append(((u, pw, srv[:2]), c.export_key, bx(c.msg)[s.sz.npk + s.sz.nh:s.sz.npk + s.sz.nh + 32]))
            if same_tape:
                if len({n for _, _, n in same_tape}) != 1:
                    V("control: identical client tapes did not give identical envelope nonces", "")
                byk = {}
                bywho = {}
                for who, ek, _ in same_tape:
                    byk.setdefault(ek, set()).add(who)
                    bywho.setdefault(who, set()).add(ek)
                for who, eks in bywho.items():
                    if len(eks) > 1:
                        V("the same user, password, server and client randomness gave different export keys before and after the server setup was saved and restored",
                          "%s" % (who,))
                for ek, whos in byk.items():
                    whos = sorted(whos, key=repr)
                    if len(whos) > 1:
                        V("different user / password / server but the same export key (identical client randomness)",
                          "export key %s shared by %s" % (ek, [(repr(u) if len(u) < 30 else repr(u[:8]) + "..(%d)" % len(u), proto.short(p_), sv) for u, p_, sv in whos]))
                stats["same_tape_registrations"] = stats.get("same_tape_registrations", 0) + len(same_tape)
            # degenerate randomness at the envelope nonce: the same user / password / server registered again and again with a
            # client RNG whose 32 nonce bytes are all-zero, constant, or zero in one half. These are registrations like any other:
            # distinct nonces -> pairwise distinct export keys, and every login returns its own registration's key
            x16 = proto.H("c16-x16", su, wi)[:16]
            odd = [("all-zero", bytes(32)), ("all-0xab", b"\xab" * 32), ("all-0xff", b"\xff" * 32), ("all-0x01", b"\x01" * 32), ("upper-half-zero", x16 + bytes(16)),
                   ("lower-half-zero", bytes(16) + x16), ("last-byte-only", bytes(31) + b"\x01"), ("first-byte-only", b"\x01" + bytes(31))]
            oddrecs = []
            for lab, nonce in odd:
                s.rng("oddn", proto.H("c16-odd", su, wi), tape=nonce)
                f = proto.register(s, rng, "S1", users[0][1], b"alice", wire=False, tag="odd-" + lab, rng_finish="oddn")
                evals += 4
                if not f.ok:
                    V("control: registration with a degenerate envelope nonce failed", "%s: %s" % (lab, f.first_failure()))
                    continue
                got = bx(f.rupl)[s.sz.npk + s.sz.nh:s.sz.npk + s.sz.nh + 32]
                stats["odd_nonce_registrations"] = stats.get("odd_nonce_registrations", 0) + 1
                if got != nonce:
                    V("the envelope nonce is not the value drawn from the caller's RNG", "%s: drew %s, envelope carries %s" % (lab, nonce.hex(), got.hex()))
                oddrecs.append((lab, f))
                lg = proto.login(s, rng, rng, "S1", f.file_h, users[0][1], b"alice", wire=False, tag="oddl-" + lab)
                evals += 4
                if not lg.ok:
                    V("control: honest login failed (degenerate envelope nonce)", "%s: %s" % (lab, lg.first_failure()))
                else:
                    stats["export_equalities"] += 1
                    if lg.export_key != f.export_key:
                        V("login returned an export key different from its registration's", "registration with envelope nonce %s (%s): %s vs %s" % (
                            lab, nonce.hex(), lg.export_key, f.export_key))
            eks = {}
            for lab, f in oddrecs:
                eks.setdefault(f.export_key, []).append(lab)
            for ek_, labs in eks.items():
                if len(labs) > 1:
                    V("two distinct registrations returned the same export key", "same user, password and server, envelope nonces %s" % labs)
            for lab, f in oddrecs:
                if f.export_key in [r_["export"] for r_ in records]:
                    V("two distinct registrations returned the same export key", "degenerate-nonce registration %s and an ordinary one" % lab)
            # logins in random interleaving
            nlog = 60 if tier == "quick" else 200
            ctxs_ = [None, b"", b"z" * 300, b"y" * 255, b"x" * 256]
            sched = [(r_, c_) for r_ in records for c_ in (ctxs_ if r_["user"] in fixed_ids or tier == "thorough" else ctxs_[:3])]
            for k in range(len(sched) + nlog):
                if k < len(sched):
                    r, ctx = sched[k]
                else:
                    r = rnd.choice(records)
                    ctx = rnd.choice([None, b"", b"ctx-%d" % k, b"z" * 300])
                lg = proto.login(s, rng, rng, r["srv"], r["h"], r["pw"], r["user"].encode(), ctx_c=ctx, ctx_s=ctx, id_u_c=r["ids"][0], id_s_c=r["ids"][1],
                                 id_u_s=r["ids"][0], id_s_s=r["ids"][1], wire=bool(rnd.getrandbits(1)), tag="l%d" % k)
                evals += 4
                if not lg.ok:
                    V("control: honest login failed", str(lg.first_failure()))
                    continue
                stats["logins"] += 1
                stats["export_equalities"] += 1
                if lg.export_key != r["export"]:
                    V("login returned an export key different from its registration's", "login %d against registration %d (%s): %s vs %s" % (k, r["n"], r["user"], lg.export_key, r["export"]))
                others = [x for x in records if x is not r and x["export"] == lg.export_key]
                if others:
                    V("login returned the export key of another registration", "login %d" % k)
                messages += [("credential request", bx(lg.creq)), ("credential response", bx(lg.cresp)), ("credential finalization", bx(lg.cfin))]
                secrets.append(("session key of login %d" % k, bx(lg.session_key_c)))
                if len(samples) < 1:
                    samples.append({"suite": su, "world": wi, "login": k, "record_registration": r["n"], "user": r["user"], "ctx": proto.short(ctx),
                                    "export_key": lg.export_key, "equals_registration_export_key": lg.export_key == r["export"]})
                s.cmd("drop", names=["l%d.%s" % (k, x) for x in ("cl", "cq", "sl", "cr", "cf")])
            # leak scan
            secrets = list(dict((b, l) for l, b in secrets if len(b) >= 16).items())
            stats["messages"] += len(messages)
            stats["secrets"] += len(secrets)
            blob_index = {}
            for kind, mbytes in messages:
                for sec, lab in secrets:
                    stats["scanned_pairs"] += 1
                    if sec in mbytes:
                        V("a secret appears verbatim in a %s" % kind, "%s found at offset %d of a %s" % (lab, mbytes.find(sec), kind))
            s.cmd("clear")
    stats["suites"] = {su: stats["logins"]}
    return {"evals": evals, "nontrivial": stats["logins"] + stats["registrations"], "samples": samples, "violations": viol, "inconclusive": [], "stats": stats}


def floors(tier, stats, results):
    missing = [x for x in okv.SUITES20 if stats.get("suites", {}).get(x, 0) < 50]
    out = ["fewer than 50 successful logins for suites %s" % missing] if missing else []
    if stats.get("odd_nonce_registrations", 0) < 8 * 20:
        out.append("fewer than 8 degenerate-nonce registrations per suite")
    return out
