"""Protocol-flow helpers over an okv Session: they *drive and record*; verdicts live in the
per-property monitors."""
import hashlib
import random

from . import okv


def H(*parts):
    h = hashlib.sha256()
    for p in parts:
        if isinstance(p, str):
            p = p.encode()
        elif isinstance(p, int):
            p = str(p).encode()
        h.update(len(p).to_bytes(4, "big") + p)
    return h.digest()


def pyrng(*parts):
    return random.Random(int.from_bytes(H(*parts), "big"))


class Flow:
    """Record of the API steps of one registration or login."""

    def __init__(self):
        self.steps = []  # (opname, reply)
        self.failed_at = None
        # outputs default to None so that a monitor can test `.ok` after the fact instead of crashing on a missing attribute
        self.file_h = self.file = self.rupl = self.rreq = self.rresp = self.export_key = self.server_s_pk = None
        self.creq = self.cresp = self.cfin = self.session_key_c = self.session_key_s = None
        self.clogin_state = self.slogin_state = self.creg_state = None

    def add(self, name, r):
        self.steps.append((name, r))
        if r.failed and self.failed_at is None:
            self.failed_at = name
        return r

    @property
    def ok(self):
        return self.failed_at is None

    def first_failure(self):
        for n, r in self.steps:
            if r.failed:
                return n, dict((k, v) for k, v in r.items() if k in ("err", "panic", "died", "returncode", "stderr"))
        return None


def via_wire(s, kind, reply_hex, handle, wire):
    """deliver a message as bytes (decode a fresh object) or as the object itself"""
    if not wire:
        return handle, None
    r = s.de(kind, reply_hex)
    return (r.h if r.ok else None), r


def register(s, rng, setup, pw, cred, id_u=None, id_s=None, ksf=None, wire=True, tag=None, rng_finish=None, params_via=None):
    tag = tag or s.fresh("reg")
    f = Flow()
    f.pw, f.cred, f.id_u, f.id_s, f.ksf = pw, cred, id_u, id_s, ksf
    r1 = f.add("creg_start", s.cmd("creg_start", rng=rng, pw=pw, out_state=tag + ".cs", out_msg=tag + ".rq"))
    if r1.failed:
        return f
    f.rreq = r1.msg
    f.creg_state = r1.state
    h, d = via_wire(s, "rreq", r1.msg, tag + ".rq", wire)
    if d is not None and f.add("de rreq", d).failed:
        return f
    r2 = f.add("sreg_start", s.cmd("sreg_start", setup=setup, req=h, cred=cred, out=tag + ".rr"))
    if r2.failed:
        return f
    f.rresp = r2.msg
    h, d = via_wire(s, "rresp", r2.msg, tag + ".rr", wire)
    if d is not None and f.add("de rresp", d).failed:
        return f
    r3 = f.add("creg_finish", s.cmd("creg_finish", rng=rng_finish or rng, state=tag + ".cs", pw=pw, resp=h, id_u=id_u, id_s=id_s,
                                    ksf=ksf, out=tag + ".up", params_via=params_via))
    if r3.failed:
        return f
    f.rupl = r3.msg
    f.export_key = r3.export_key
    f.server_s_pk = r3.server_s_pk
    f.creg_finish = r3
    h, d = via_wire(s, "rupl", r3.msg, tag + ".up", wire)
    if d is not None and f.add("de rupl", d).failed:
        return f
    r4 = f.add("sreg_finish", s.cmd("sreg_finish", upload=h, out=tag + ".file"))
    if r4.failed:
        return f
    f.file = r4.file
    f.file_h = tag + ".file"
    return f


def login_start(s, rng, pw, tag=None):
    tag = tag or s.fresh("lg")
    r = s.cmd("clogin_start", rng=rng, pw=pw, out_state=tag + ".cl", out_msg=tag + ".cq")
    r["state_h"] = tag + ".cl"
    r["msg_h"] = tag + ".cq"
    return r


def login(s, rng_c, rng_s, setup, file_h, pw, cred, ctx_c=None, ctx_s=None, id_u_c=None, id_s_c=None, id_u_s=None,
          id_s_s=None, ksf=None, wire=True, tag=None, pw_finish=None, do_server_finish=True, params_via=None, persist=None):
    """One login. Client-side parameters (*_c) and server-side parameters (*_s) are separate so that
    mismatches can be driven. pw_finish: password given to finish if different from start."""
    tag = tag or s.fresh("lg")
    f = Flow()
    f.tag = tag
    r1 = f.add("clogin_start", s.cmd("clogin_start", rng=rng_c, pw=pw, out_state=tag + ".cl", out_msg=tag + ".cq"))
    if r1.failed:
        return f
    f.creq = r1.msg
    f.clogin_state = r1.state
    h, d = via_wire(s, "creq", r1.msg, tag + ".cq", wire)
    if d is not None and f.add("de creq", d).failed:
        return f
    r2 = f.add("slogin_start", s.cmd("slogin_start", rng=rng_s, setup=setup, file=file_h, req=h, cred=cred, ctx=ctx_s,
                                     id_u=id_u_s, id_s=id_s_s, out_state=tag + ".sl", out_msg=tag + ".cr", params_via=params_via))
    if r2.failed:
        return f
    f.cresp = r2.msg
    f.slogin_state = r2.state
    f.slogin_start = r2
    if persist:
        # both parties save their in-flight state and go on with the restored copy (persist = native | bincode | json)
        for kind, hname in (("clogin", tag + ".cl"), ("slogin", tag + ".sl")):
            e = s.ser(hname, persist)
            if f.add("save %s (%s)" % (kind, persist), e).failed:
                return f
            d = s.de(kind, e.data if persist == "json" else bytes.fromhex(e.data), codec=persist, out=hname)
            if f.add("restore %s (%s)" % (kind, persist), d).failed:
                return f
    h, d = via_wire(s, "cresp", r2.msg, tag + ".cr", wire)
    if d is not None and f.add("de cresp", d).failed:
        return f
    r3 = f.add("clogin_finish", s.cmd("clogin_finish", state=tag + ".cl", pw=pw if pw_finish is None else pw_finish,
                                      resp=h, ctx=ctx_c, id_u=id_u_c, id_s=id_s_c, ksf=ksf, out=tag + ".cf", params_via=params_via))
    f.clogin_finish = r3
    if r3.failed:
        return f
    f.cfin = r3.msg
    f.session_key_c = r3.session_key
    f.export_key = r3.export_key
    f.server_s_pk = r3.server_s_pk
    if not do_server_finish:
        return f
    h, d = via_wire(s, "cfin", r3.msg, tag + ".cf", wire)
    if d is not None and f.add("de cfin", d).failed:
        return f
    r4 = f.add("slogin_finish", s.cmd("slogin_finish", state=tag + ".sl", fin=h))
    f.slogin_finish = r4
    if r4.failed:
        return f
    f.session_key_s = r4.session_key
    return f


# ------------------------------------------------------------------------------- input classes

def password_classes(rnd, big=True):
    """(label, bytes) covering the classes of C01's quantifier"""
    out = [
        ("empty", b""),
        ("1byte", b"x"),
        ("zero8", bytes(8)),
        ("ff16", b"\xff" * 16),
        ("nul-inside", b"pass\x00word"),
        ("utf8", "pässwörd-密码-🔑".encode()),
        ("len255", bytes(rnd.randrange(256) for _ in range(255))),
        ("len256", bytes(rnd.randrange(256) for _ in range(256))),
        ("random", bytes(rnd.randrange(256) for _ in range(rnd.randrange(1, 80)))),
    ]
    # hash-block and field-size boundaries (a fault that only shows for inputs of a particular length)
    for n in (31, 32, 33, 55, 56, 63, 64, 65, 111, 112, 127, 128, 129):
        out.append(("len%d" % n, bytes(rnd.randrange(256) for _ in range(n))))
    if big:
        out.append(("len65535", b"\x61" * 65534 + b"\x62"))
        out.append(("len65534", bytes(rnd.randrange(256) for _ in range(65534))))
    return out


def cred_classes(rnd, big=True):
    out = [
        ("empty", b""),
        ("1byte", b"\x00"),
        ("email", b"alice@example.com"),
        ("ws-trailing", b"alice\n"),
        ("ws-leading", b" \talice"),
        ("ws-only", b" "),
        ("len64", bytes(rnd.randrange(256) for _ in range(64))),
        ("len1k", bytes(rnd.randrange(256) for _ in range(1024))),
    ]
    for n in (24, 25, 26, 40, 41, 42, 56, 57, 58, 63, 64, 65, 127, 128, 129, 255, 256, 257):
        out.append(("len%d" % n, bytes(rnd.randrange(256) for _ in range(n))))
    if big:
        out.append(("len100k", b"\x07" * 102399 + b"\x08"))
    return out


def ident_classes(rnd, big=True):
    out = [
        ("absent", None),
        ("empty", b""),
        ("short", b"id-" + bytes(rnd.randrange(97, 123) for _ in range(6))),
        ("len255", b"\x31" * 255),
        ("len256", b"\x32" * 256),
        ("len257", b"\x33" * 257),
    ]
    if big:
        out.append(("len65535", b"\x34" * 65534 + b"\x35"))
    return out


def ctx_classes(rnd, big=True):
    out = [
        ("absent", None),
        ("empty", b""),
        ("short", b"ctx-v1"),
        ("len256", b"\x41" * 256),
    ]
    if big:
        out.append(("len65535", b"\x42" * 65534 + b"\x43"))
    return out


def short(b, n=24):
    if b is None:
        return None
    if len(b) <= n:
        return b.hex()
    return "%s..(%d bytes)" % (b[:8].hex(), len(b))


def corpus(s, seed, pw=b"correct horse", cred=b"user-1", ctx=None, id_u=None, id_s=None, tag="c"):
    """One honest registration + login; returns {kind: valid native encoding (bytes)} for the 11
    decoders, plus the flows. Handles: <tag>S setup, <tag>g.* registration, <tag>l.* login."""
    rng = s.rng(tag + "rng", seed)
    st = s.cmd("setup_new", rng=rng, out=tag + "S")
    reg = register(s, rng, tag + "S", pw, cred, id_u=id_u, id_s=id_s, wire=False, tag=tag + "g")
    lg = login(s, rng, rng, tag + "S", reg.file_h, pw, cred, ctx_c=ctx, ctx_s=ctx, id_u_c=id_u, id_s_c=id_s, id_u_s=id_u,
               id_s_s=id_s, wire=False, tag=tag + "l")
    if not (st.ok and reg.ok and lg.ok):
        return None, st, reg, lg
    c = {
        "setup": st.ser, "rreq": reg.rreq, "rresp": reg.rresp, "rupl": reg.rupl, "file": reg.file,
        "creg": reg.creg_state, "creq": lg.creq, "cresp": lg.cresp, "cfin": lg.cfin, "clogin": lg.clogin_state,
        "slogin": lg.slogin_state,
    }
    return {k: bytes.fromhex(v) for k, v in c.items()}, st, reg, lg


KINDS11 = ["rreq", "rresp", "rupl", "creq", "cresp", "cfin", "file", "setup", "creg", "clogin", "slogin"]
