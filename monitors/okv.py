"""Driver for the okv interpreter (the real opaque-ke, production build) + mirrors of the
harness-defined deterministic pieces (RNG stream, harness KSF).

Nothing in this file decides a property; it only talks to the recorder.
"""
import hashlib
import json
import os
import select
import subprocess
import struct
import time

VERIF = os.path.dirname(os.path.dirname(os.path.abspath(__file__)))
HARNESS = os.path.join(VERIF, "harness")

OPRFS = ["r255", "p256", "p384", "p521"]
KES = ["r255", "p256", "p384", "p521", "x25519"]
SUITES20 = ["%s+%s" % (o, k) for o in OPRFS for k in KES]
ARGON_SUITES = ["r255+r255:argon2", "p256+x25519:argon2", "p384+p384:argon2", "p521+p256:argon2"]
MON_SUITES = ["r255+r255:mon", "p256+p256:mon", "p384+p384:mon", "p521+p521:mon", "p256+x25519:mon"]

# sizes by name (also reported by the interpreter's `info`; cross-checked in Session.__init__)
OPRF_SZ = {"r255": (32, 32, 64), "p256": (33, 32, 32), "p384": (49, 48, 48), "p521": (67, 66, 64)}  # Noe, Ns, Nh
KE_SZ = {"r255": (32, 32), "p256": (33, 32), "p384": (49, 48), "p521": (67, 66), "x25519": (32, 32)}  # Npk, Nsk

# relative cost of a full flow per suite (for splitting budgets); measured ms
FLOW_MS = {"r255": 1.4, "x25519": 1.1, "p256": 3.4, "p384": 13.7, "p521": 16.0}


def suite_cost(suite):
    o, k = suite.split(":")[0].split("+")
    return FLOW_MS[o] + FLOW_MS[k]


class Sizes:
    def __init__(self, suite):
        base = suite.split(":")[0]
        o, k = base.split("+")
        self.oprf, self.ke = o, k
        self.noe, self.ns, self.nh = OPRF_SZ[o]
        self.npk, self.nsk = KE_SZ[k]
        self.nn = 32
        self.nm = self.nh
        # message / state lengths (RFC 9807 layouts)
        self.rreq = self.noe
        self.rresp = self.noe + self.npk
        self.env = self.nn + self.nm
        self.rupl = self.npk + self.nh + self.env
        self.file = self.rupl
        self.ke1 = self.nn + self.npk
        self.creq = self.noe + self.ke1
        self.masked = self.npk + self.env
        self.ke2 = self.nn + self.npk + self.nm
        self.cresp = self.noe + self.nn + self.masked + self.ke2
        self.cfin = self.nm
        self.setup = self.nh + 2 * self.nsk
        self.creg = self.ns + self.noe
        self.clogin = self.ns + self.creq + self.nsk + self.nn
        self.slogin = 3 * self.nh

    def fields(self, kind):
        """(name, offset, length, class) per field; class in E,S,P,K,H,N,M(asked)"""
        lay = {
            "rreq": [("blinded", "E")],
            "rresp": [("evaluated", "E"), ("server_s_pk", "P")],
            "rupl": [("client_s_pk", "P"), ("masking_key", "H"), ("env_nonce", "N"), ("auth_tag", "H")],
            "file": [("client_s_pk", "P"), ("masking_key", "H"), ("env_nonce", "N"), ("auth_tag", "H")],
            "creq": [("blinded", "E"), ("client_nonce", "N"), ("client_e_pk", "P")],
            "cresp": [("evaluated", "E"), ("masking_nonce", "N"), ("masked", "M"), ("server_nonce", "N"),
                      ("server_e_pk", "P"), ("server_mac", "H")],
            "cfin": [("client_mac", "H")],
            "setup": [("oprf_seed", "H"), ("server_sk", "K"), ("fake_sk", "K")],
            "setupx": [("oprf_seed", "H"), ("server_sk", "K"), ("fake_sk", "K")],
            "creg": [("blind", "S"), ("blinded", "E")],
            "clogin": [("blind", "S"), ("blinded", "E"), ("client_nonce", "N"), ("client_e_pk", "P"),
                       ("client_e_sk", "K"), ("client_nonce2", "N")],
            "slogin": [("km3", "H"), ("transcript_hash", "H"), ("session_key", "H")],
        }[kind]
        ln = {"E": self.noe, "S": self.ns, "P": self.npk, "K": self.nsk, "H": self.nh, "N": 32, "M": self.masked}
        out, off = [], 0
        for name, cls in lay:
            out.append((name, off, ln[cls], cls))
            off += ln[cls]
        return out


# --------------------------------------------------------------------------- deterministic mirrors

def stream_bytes(seed: bytes, tape: bytes, pos: int, n: int) -> bytes:
    """bytes [pos, pos+n) of the harness RNG stream: tape, then SHA-512(seed||LE64(i/64))[i%64]"""
    out = bytearray()
    while n > 0:
        if pos < len(tape):
            take = min(n, len(tape) - pos)
            out += tape[pos:pos + take]
        else:
            i = pos - len(tape)
            blk = hashlib.sha512(seed + struct.pack("<Q", i // 64)).digest()
            take = min(n, 64 - i % 64)
            out += blk[i % 64:i % 64 + take]
        pos += take
        n -= take
    return bytes(out)


HKSF_DEFAULT_PARAM = 1


def hksf(param: int, data: bytes) -> bytes:
    cur = data
    l = len(data)
    for rnd in range(param):
        out = b""
        ctr = 0
        while len(out) < l:
            out += hashlib.sha512(b"okv-ksf" + struct.pack("<I", param) + struct.pack("<I", rnd) + bytes([ctr]) + cur).digest()
            ctr += 1
        cur = out[:l]
    return cur


# --------------------------------------------------------------------------- session

class HarnessError(Exception):
    pass


class Reply(dict):
    __getattr__ = dict.get

    @property
    def failed(self):
        return not self.get("ok")


def _wire(v):
    if isinstance(v, (bytes, bytearray)):
        v = bytes(v)
        if len(v) > 2048 and len(set(v[:-1])) == 1:
            return {"rep": v[:1].hex(), "n": len(v) - 1, "tail": v[-1:].hex()}
        return v.hex()
    return v


BUILD_DIRS = {
    "release": "target",
    "ovf": "target-ovf",
    "asan": "target-asan",
}


def binary(flavour="release"):
    if flavour == "asan":
        return os.path.join(HARNESS, "target-asan", "x86_64-unknown-linux-gnu", "release", "okv")
    return os.path.join(HARNESS, BUILD_DIRS[flavour], "release", "okv")


class Session:
    """One interpreter process for one suite. Every command sent is optionally tee'd to a script
    file that `okv --script` can replay under a sanitizer."""

    def __init__(self, suite, flavour="release", tee=None, wrapper=None, record=False):
        self.suite = suite
        self.sz = Sizes(suite)
        argv = list(wrapper or []) + [binary(flavour), suite]
        self.p = subprocess.Popen(argv, stdin=subprocess.PIPE, stdout=subprocess.PIPE, stderr=subprocess.PIPE,
                                  bufsize=1 << 16)
        self.ncalls = 0
        self.tee = open(tee, "w") if tee else None
        self.call_timeout = None      # seconds; None = wait forever (the job watchdog bounds the run)
        self.raw = [] if record else None   # when a list: every raw reply line is appended (for cross-build comparison)
        self.last = None
        self._n = 0
        info = self.cmd("info")
        assert (info.noe, info.ns, info.npk, info.nsk, info.nh) == (self.sz.noe, self.sz.ns, self.sz.npk, self.sz.nsk, self.sz.nh), info
        self.info = info

    def fresh(self, prefix="o"):
        self._n += 1
        return "%s%d" % (prefix, self._n)

    def cmd(self, op, **kw) -> Reply:
        c = {"op": op}
        for k, v in kw.items():
            if v is None:
                continue
            c[k] = _wire(v)
        line = json.dumps(c, separators=(",", ":"))
        if self.tee:
            self.tee.write(line + "\n")
        self.last = c
        try:
            self.p.stdin.write(line.encode() + b"\n")
            self.p.stdin.flush()
            if self.call_timeout is not None:
                t0 = time.time()
                # strict request/reply, one line each: nothing is left buffered between calls
                rl, _, _ = select.select([self.p.stdout], [], [], self.call_timeout)
                if not rl:
                    self.p.kill()
                    return Reply(ok=False, died=True, timeout=True, waited_s=round(time.time() - t0, 1), open_call=c)
            out = self.p.stdout.readline()
        except BrokenPipeError:
            out = b""
        self.ncalls += 1
        if not out:
            rc = self.p.poll()
            err = b""
            try:
                err = self.p.stderr.read()[-2000:]
            except Exception:
                pass
            # the process died inside this call: an open call (abort / stack overflow / signal)
            r = Reply(ok=False, died=True, returncode=rc, stderr=err.decode("latin1"), open_call=c)
            return r
        if self.raw is not None:
            self.raw.append(out.decode().rstrip("\n"))
        r = Reply(json.loads(out))
        if "harness_error" in r:
            raise HarnessError("%s: %s (cmd %s)" % (self.suite, r["harness_error"], line[:300]))
        return r

    def close(self):
        if self.tee:
            self.tee.close()
            self.tee = None
        try:
            self.p.stdin.close()
        except Exception:
            pass
        try:
            self.p.wait(timeout=30)
        except Exception:
            self.p.kill()

    def __enter__(self):
        return self

    def __exit__(self, *a):
        self.close()

    # ---- conveniences -----------------------------------------------------
    def rng(self, name, seed: bytes, tape: bytes = b""):
        self.cmd("rng", id=name, seed=seed, tape=tape)
        return name

    def de(self, kind, data, codec="native", out=None):
        out = out or self.fresh(kind)
        r = self.cmd("de", kind=kind, codec=codec, data=data, out=out)
        r["h"] = out
        return r

    def ser(self, h, codec="native"):
        return self.cmd("ser", h=h, codec=codec)


def run_script(suite, script, out, flavour="release", wrapper=None, timeout=3600, env=None):
    argv = list(wrapper or []) + [binary(flavour), suite, "--script", script, "--out", out]
    p = subprocess.run(argv, capture_output=True, timeout=timeout, env=env)
    return p
