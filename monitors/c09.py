"""C09 - byte-exact conformance to RFC 9807 / RFC 9497 (reference-model monitor over recorded runs).

Every message, the password file, export key, session key and the server's pending state are
re-derived by the independent model from the inputs and the random choices actually made
(witnesses taken from the states/messages/recorded RNG draws, identified by relation).
"""
from . import okv, proto
from .refmodel import selftest
from .refmodel.opaque import Opaque

LEVEL = "exploration"
RULE = ("worlds = C01's input classes (empty / 65535-byte passwords, ids and contexts, identities above 255 bytes, "
        "explicit vs absent parameters) x real and absent password file x KSF in {harness stretch p=1 default, "
        "explicit p=0/3, stock Identity}; every recorded output is recomputed by the reference model; non-trivial = "
        "a world in which all outputs were recomputed and compared; distinct = distinct (suite, class tuple, real/fake)")
ASSUMPTIONS = ["reference model passed RFC 9807 App. C (6 real + 3 fake), RFC 9497 mode-0 (4 suites), RFC 9380, 9496, "
               "7748 vectors in this run before being consulted",
               "Argon2 is not modelled in Python; the Argon2 adapter is covered behaviourally by C01/C15",
               "for suites the RFC does not spell out, DeriveDiffieHellmanKeyPair = HashToScalar into the KE group's "
               "scalar field with the OPRF suite's hash and DST 'DeriveKeyPair'||contextString (the property's sentence)"]


def jobs(tier, seed):
    out = []
    n = 8 if tier == "quick" else 320
    for su in okv.SUITES20:
        shards = 1 if tier == "quick" else 4
        for sh in range(shards):
            out.append({"suite": su, "shard": sh, "n": n // shards, "seed": seed, "cost": okv.suite_cost(su) * n / shards, "big": sh == 0})
    for su in okv.SUITES20:
        out.append({"suite": su + ":id", "shard": 0, "n": 2 if tier == "quick" else 12, "seed": seed, "cost": okv.suite_cost(su), "big": False})
    # the real Argon2 adapter: the stretched value is taken from the argon2 crate called directly by the harness
    # (salt = 16 zero bytes, tag length = Nh, as RFC 9807 prescribes) - opaque-ke's own Ksf impl is not involved
    for su in okv.ARGON_SUITES:
        out.append({"suite": su, "shard": 0, "n": 6 if tier == "quick" else 18, "seed": seed, "cost": 300, "big": False})
    return out


def draws_of(seedtape, reply):
    """recorded draws of one call, regenerated from the stream definition"""
    d = reply.get("draws")
    if not d:
        return []
    seed, tape = seedtape
    out, pos = [], d["pos"]
    for ln in d["lens"]:
        out.append(okv.stream_bytes(seed, tape, pos, ln))
        pos += ln
    return out


def ksf_fn(suite, ksf_name, session=None):
    if suite.endswith(":id"):
        return lambda x: x
    if suite.endswith(":argon2"):
        name = ksf_name or "kdef"

        def f(x):
            r = session.cmd("ksf_ref", ksf=name, input=x, len=len(x))
            if not r.ok:
                raise RuntimeError("argon2 reference failed: %s" % r.get("err"))
            return bytes.fromhex(r.out)
        return f
    param = {None: okv.HKSF_DEFAULT_PARAM, "k1": 1, "k0": 0, "k3": 3}[ksf_name]
    return lambda x: okv.hksf(param, x)


def find_keypair(m, draws, want_pk):
    """the recorded Nsk-byte draw whose DeriveDiffieHellmanKeyPair public key is want_pk"""
    for d in draws:
        if len(d) == m.nsk:
            sk, pk = m.ke.derive_dh_keypair(m.oprf, d)
            if pk == want_pk:
                return sk
    return None


def blind_from_draws(m, draws):
    if m.oprf.key == "r255":
        for d in draws:
            if len(d) == 64:
                return int.from_bytes(d, "little") % m.oprf.G.order
        return None
    for d in draws:
        s = m.oprf.G.decode_scalar(d) if len(d) == m.ns else None
        if s is not None:
            return s
    return None


def check_world(m, w):
    """w: dict of recorded values (bytes). Returns list of (what, got, want)."""
    bad = []

    def eq(what, got, want):
        if got != want:
            bad.append((what, got.hex() if isinstance(got, bytes) else got, want.hex() if isinstance(want, bytes) else want))

    ksf = w["ksf"]
    setup = w["setup"]
    oprf_seed, ssk, fsk = setup[:m.nh], setup[m.nh:m.nh + m.nsk], setup[m.nh + m.nsk:]
    spk = m.ke.pk_from_sk(ssk)
    eq("setup public key = sk*G", w["setup_pk"], spk)
    # setup key pairs are DeriveDiffieHellmanKeyPair of recorded draws; the seed is a verbatim draw
    sd = w["setup_draws"]
    if find_keypair(m, sd, spk) != ssk:
        bad.append(("server key pair is not DeriveDiffieHellmanKeyPair(recorded draw)", ssk.hex(), None))
    fpk = m.ke.pk_from_sk(fsk)
    if find_keypair(m, sd, fpk) != fsk:
        bad.append(("fake key pair is not DeriveDiffieHellmanKeyPair(recorded draw)", fsk.hex(), None))
    if oprf_seed not in sd:
        bad.append(("oprf_seed is not a recorded draw", oprf_seed.hex(), None))
    idu, ids, ctx = w["id_u"], w["id_s"], (w["ctx"] or b"")
    if w.get("reg"):
        r = w["reg"]
        st = r["creg_state"]
        blind = m.oprf.G.decode_scalar(st[:m.ns])
        eq("client registration state = blind || request", st[m.ns:], r["rreq"])
        bd = blind_from_draws(m, r["start_draws"])
        eq("registration blind = function of the recorded draws", bd, blind)
        eq("registration request", r["rreq"], m.registration_request(w["pw"], blind))
        eq("registration response", r["rresp"], m.registration_response(oprf_seed, w["cred"], r["rreq"], spk))
        nonce = r["rupl"][m.npk + m.nh:m.npk + m.nh + 32]
        if nonce not in r["finish_draws"]:
            bad.append(("envelope nonce is not a recorded draw", nonce.hex(), None))
        upl, export_key, oprf_out = m.registration_upload(w["pw"], blind, r["rresp"], nonce, w["reg_id_u"], w["reg_id_s"], ksf)
        eq("registration upload", r["rupl"], upl)
        eq("password file", r["file"], upl)
        eq("export key (registration)", r["export_key"], export_key)
        eq("server_s_pk (registration)", r["server_s_pk"], spk)
        if r.get("ksf_inputs") is not None:
            eq("KSF input = OPRF Finalize output", r["ksf_inputs"], [oprf_out])
        record = (upl[:m.npk], upl[m.npk:m.npk + m.nh], upl[m.npk + m.nh:])
    lg = w["login"]
    st = lg["clogin_state"]
    blind = m.oprf.G.decode_scalar(st[:m.ns])
    creq = lg["creq"]
    eq("client login state = blind || request || e_sk || nonce (request part)", st[m.ns:m.ns + len(creq)], creq)
    cesk = st[m.ns + len(creq):m.ns + len(creq) + m.nsk]
    cnonce = st[m.ns + len(creq) + m.nsk:]
    eq("client nonce in state = in KE1", cnonce, creq[m.noe:m.noe + 32])
    cepk = creq[m.noe + 32:]
    eq("client ephemeral public key = sk*G", cepk, m.ke.pk_from_sk(cesk))
    if find_keypair(m, lg["start_draws"], cepk) != cesk:
        bad.append(("client ephemeral key pair is not DeriveDiffieHellmanKeyPair(recorded draw)", cesk.hex(), None))
    if cnonce not in lg["start_draws"]:
        bad.append(("client nonce is not a recorded draw", cnonce.hex(), None))
    eq("login blind = function of the recorded draws", blind_from_draws(m, lg["start_draws"]), blind)
    eq("KE1", creq, m.ke1(w["pw_login"], blind, cnonce, cepk))
    cresp = lg["cresp"]
    off = m.noe
    masking_nonce = cresp[off:off + 32]
    off += 32 + m.npk + 32 + m.nm
    server_nonce = cresp[off:off + 32]
    sepk = cresp[off + 32:off + 32 + m.npk]
    sd = lg["sstart_draws"]
    for nm, v in (("masking nonce", masking_nonce), ("server nonce", server_nonce)):
        if v not in sd:
            bad.append(("%s is not a recorded draw" % nm, v.hex(), None))
    sesk = find_keypair(m, sd, sepk)
    if sesk is None:
        bad.append(("server ephemeral key is not DeriveDiffieHellmanKeyPair(recorded draw)", sepk.hex(), None))
        return bad
    if w.get("reg"):
        rec = record
    else:
        # absent password file: masking key = a recorded Nh-byte draw, fake public key, zero envelope
        rec = None
        for d in sd:
            if len(d) == m.nh:
                cand = (fpk, d, bytes(32 + m.nm))
                ke2, _, _ = m.ke2(oprf_seed, w["cred"], ssk, spk, cand, creq, masking_nonce, server_nonce, sesk, sepk, ctx, idu, ids)
                if ke2 == cresp:
                    rec = cand
                    break
        if rec is None:
            bad.append(("fake credential response is not explained by (fake pk, a recorded Nh-byte draw as masking key, zero envelope)", cresp.hex(), None))
            return bad
    ke2, state, sk = m.ke2(oprf_seed, w["cred"], ssk, spk, rec, creq, masking_nonce, server_nonce, sesk, sepk, ctx, idu, ids)
    eq("KE2", cresp, ke2)
    eq("server pending state = Km3 || Hash(preamble||server_mac) || session_key", lg["slogin_state"], state)
    if w.get("reg") and lg.get("cfin") is not None:
        r = m.client_finish(w["pw_login"], blind, creq, cesk, cresp, ctx, idu, ids, ksf)
        if not r["ok"]:
            bad.append(("model's client rejects the response the implementation accepted", r["reason"], None))
        else:
            eq("KE3", lg["cfin"], r["ke3"])
            eq("session key (client)", lg["session_key_c"], r["session_key"])
            eq("session key (server)", lg["session_key_s"], sk)
            eq("export key (login)", lg["export_key"], r["export_key"])
            eq("server_s_pk (login)", lg["server_s_pk"], spk)
    return bad


def run_job(job):
    ok, detail = selftest.run()
    if not ok:
        return {"evals": 0, "nontrivial": 0, "samples": [], "violations": [], "inconclusive": [detail], "stats": {}}
    su = job["suite"]
    rnd = proto.pyrng("c09", su, job["shard"], job["seed"])
    sz = okv.Sizes(su)
    m = Opaque(sz.oprf, sz.ke)
    viol, samples = [], []
    stats = {"worlds": 0, "fake_worlds": 0, "compared_values": 0, "suites": {}}
    seen = set()
    evals = 0
    bx = bytes.fromhex
    with okv.Session(su) as s:
        if su.endswith(":argon2"):
            s.cmd("ksf_new", id="kdef", param="default")
            s.cmd("ksf_new", id="kcheap", param={"m": 64, "t": 1, "p": 1})
            s.cmd("ksf_new", id="kcheap2", param={"m": 96, "t": 2, "p": 2})
            s.cmd("ksf_new", id="kalgi", param={"m": 64, "t": 1, "p": 1, "alg": "i", "ver": 16})
            s.cmd("ksf_new", id="ksecret", param={"m": 64, "t": 1, "p": 2, "alg": "d", "secret": "0102030405060708"})
            modes = [None, "kcheap", "kdef", "kcheap2", "kalgi", "ksecret"]
        elif not su.endswith(":id"):
            s.cmd("ksf_new", id="k1", param=1)
            s.cmd("ksf_new", id="k0", param=0)
            s.cmd("ksf_new", id="k3", param=3)
            modes = [None, "k1", "k0", "k3"]
        else:
            modes = [None]
        pws = proto.password_classes(rnd, big=job["big"])
        creds = proto.cred_classes(rnd, big=job["big"])
        ids = proto.ident_classes(rnd, big=job["big"])
        ctxs = proto.ctx_classes(rnd, big=job["big"])
        L = max(len(pws), len(creds), len(ids), len(ctxs))
        plan = [(pws[i % len(pws)], creds[(i + 1) % len(creds)], ids[i % len(ids)], ids[(i + 2) % len(ids)], ctxs[i % len(ctxs)]) for i in range(L)]
        while len(plan) < job["n"]:
            plan.append((rnd.choice(pws), rnd.choice(creds), rnd.choice(ids), rnd.choice(ids), rnd.choice(ctxs)))
        plan = plan[:max(job["n"], 2)] if not job["big"] else plan
        for wi, (pw, cred, idu, ids_, ctx) in enumerate(plan):
            fake = (wi % 4 == 3)
            wire = bool(rnd.getrandbits(1))
            ksfn = modes[wi % len(modes)]
            wseed = proto.H("c09w", su, job["shard"], job["seed"], wi)
            rng = s.rng("r", wseed)
            st = s.cmd("setup_new", rng=rng, out="S")
            w = {"pw": pw[1], "pw_login": pw[1], "cred": cred[1], "id_u": idu[1], "id_s": ids_[1], "ctx": ctx[1],
                 "reg_id_u": idu[1], "reg_id_s": ids_[1], "ksf": ksf_fn(su, ksfn, s),
                 "setup": bx(st.ser), "setup_pk": bx(st.pk), "setup_draws": draws_of((wseed, b""), st)}
            evals += 1
            file_h = None
            if not fake:
                reg = proto.register(s, rng, "S", pw[1], cred[1], id_u=idu[1], id_s=ids_[1], ksf=ksfn, wire=wire, tag="g")
                evals += len(reg.steps)
                if not reg.ok:
                    viol.append({"sig": "C09 honest registration failed", "what": "%s world %d: %s" % (su, wi, reg.first_failure())})
                    continue
                fin = reg.creg_finish
                w["reg"] = {"creg_state": bx(reg.creg_state), "rreq": bx(reg.rreq), "rresp": bx(reg.rresp), "rupl": bx(reg.rupl),
                            "file": bx(reg.file), "export_key": bx(reg.export_key), "server_s_pk": bx(reg.server_s_pk),
                            "start_draws": draws_of((wseed, b""), reg.steps[0][1]), "finish_draws": draws_of((wseed, b""), fin),
                            "ksf_inputs": [bx(k["in"]) for k in fin.get("ksf", [])] if ":" not in su else None}
                file_h = reg.file_h
            # key-share coincidences: tapes on which an ephemeral key pair equals the server's static one (the seed ServerSetup::new
            # drew first is replayed where the login draws its key-share seed) or the two ephemeral keys equal each other
            rng_c, rng_s, st_c, st_s = rng, rng, (wseed, b""), (wseed, b"")
            coinc = [None, "server-ephemeral=server-static", "client-ephemeral=server-static", None, None, "client-ephemeral=server-ephemeral",
                     "all-three-equal", None][wi % 8] if st.draws["lens"][0] == sz.nsk and not fake else None
            if coinc:
                static_seed = okv.stream_bytes(wseed, b"", st.draws["pos"], sz.nsk)
                eseed = static_seed if "static" in coinc or "three" in coinc else proto.H("c09-eseed", wseed)[:1] * sz.nsk
                if coinc != "client-ephemeral=server-static":
                    ss = proto.H("c09-srv", wseed)
                    st_s = (ss, okv.stream_bytes(ss, b"x", 1, 32) + eseed)    # masking nonce, then the key-share seed
                    rng_s = s.rng("rs", st_s[0], st_s[1])
                if coinc != "server-ephemeral=server-static":
                    # the client draws its blind first (a suite-dependent number of draws): learn the shape from a dry run on the same seed
                    cs = proto.H("c09-cli", wseed)
                    dry = s.cmd("clogin_start", rng=s.rng("rc", cs), pw=pw[1], out_state="dry.cl", out_msg="dry.cq")
                    lens = dry.draws["lens"]
                    if lens[-2] == sz.nsk:
                        st_c = (cs, okv.stream_bytes(cs, b"", 0, sum(lens[:-2])) + eseed)
                        rng_c = s.rng("rc", st_c[0], st_c[1])
                stats["coincidence_worlds"] = stats.get("coincidence_worlds", 0) + 1
            lg = proto.login(s, rng_c, rng_s, "S", file_h, pw[1], cred[1], ctx_c=ctx[1], ctx_s=ctx[1], id_u_c=idu[1], id_s_c=ids_[1],
                             id_u_s=idu[1], id_s_s=ids_[1], ksf=ksfn, wire=wire, tag="l")
            evals += len(lg.steps)
            if coinc and lg.creq and lg.cresp:
                cepk = bx(lg.creq)[sz.noe + 32:]
                sepk = bx(lg.cresp)[sz.noe + 32 + sz.npk + 32 + sz.nh + 32:][:sz.npk]
                hit = {"server-ephemeral=server-static": sepk == bx(st.pk), "client-ephemeral=server-static": cepk == bx(st.pk),
                       "client-ephemeral=server-ephemeral": cepk == sepk, "all-three-equal": cepk == sepk == bx(st.pk)}[coinc]
                stats["coincidence_hits"] = stats.get("coincidence_hits", 0) + (1 if hit else 0)
            if fake:
                if lg.failed_at != "clogin_finish":
                    viol.append({"sig": "C09 fake-record login did not fail at client finish", "what": "%s world %d: failed_at=%s" % (su, wi, lg.failed_at)})
                    continue
            elif not lg.ok:
                viol.append({"sig": "C09 honest login failed", "what": "%s world %d: %s" % (su, wi, lg.first_failure())})
                continue
            startr = [r for n, r in lg.steps if n == "clogin_start"][0]
            w["login"] = {"clogin_state": bx(lg.clogin_state), "creq": bx(lg.creq), "cresp": bx(lg.cresp),
                          "slogin_state": bx(lg.slogin_state), "start_draws": draws_of(st_c, startr),
                          "sstart_draws": draws_of(st_s, lg.slogin_start)}
            if not fake:
                w["login"].update({"cfin": bx(lg.cfin), "session_key_c": bx(lg.session_key_c), "session_key_s": bx(lg.session_key_s),
                                   "export_key": bx(lg.export_key), "server_s_pk": bx(lg.server_s_pk)})
            bad = check_world(m, w)
            # the server's answer to requests whose key share is NOT an honestly derived key (any valid public key is a legal
            # KE1): Curve25519 u-coordinates on the twist or with a small-order component, random points elsewhere
            if not fake and not bad and wi % 2 == 0:
                creq_b = w["login"]["creq"]
                foreign = []
                if sz.ke == "x25519":
                    from .refmodel import c25519 as _c
                    foreign += _c.x_torsion_variants(creq_b[sz.noe + 32:])[:2]
                    while len(foreign) < 4:
                        u = bytes(rnd.randrange(256) for _ in range(32))
                        if m.ke.valid_pk(u):
                            foreign.append(u)
                else:
                    foreign.append(m.ke.pk_from_sk(m.ke.G.encode_scalar(rnd.randrange(1, m.ke.G.order))))
                record = (w["reg"]["rupl"][:m.npk], w["reg"]["rupl"][m.npk:m.npk + m.nh], w["reg"]["rupl"][m.npk + m.nh:])
                setup_b = w["setup"]
                for fk in foreign:
                    q = creq_b[:sz.noe + 32] + fk
                    d = s.de("creq", q, out="aq")
                    if not d.ok:
                        viol.append({"sig": "C09 a valid public key is refused as KE1 key share", "what": "%s: %s: %s" % (su, fk.hex(), d.err)})
                        continue
                    r = s.cmd("slogin_start", rng=rng, setup="S", file=file_h, req="aq", cred=cred[1], ctx=ctx[1], id_u=idu[1], id_s=ids_[1], out_state="asl", out_msg="acr")
                    evals += 2
                    if r.failed:
                        viol.append({"sig": "C09 ServerLogin::start failed on a valid foreign key share", "what": "%s: %s" % (su, dict(r))})
                        continue
                    ad = draws_of((wseed, b""), r)
                    cr = bx(r.msg)
                    o1 = sz.noe
                    o2 = sz.noe + 32 + sz.masked
                    mnonce, snonce, sepk = cr[o1:o1 + 32], cr[o2:o2 + 32], cr[o2 + 32:o2 + 32 + sz.npk]
                    sesk = find_keypair(m, ad, sepk)
                    if sesk is None:
                        continue
                    ke2, state_m, _ = m.ke2(setup_b[:m.nh], cred[1], setup_b[m.nh:m.nh + m.nsk], w["setup_pk"], record, q, mnonce, snonce, sesk, sepk, ctx[1] or b"", idu[1], ids_[1])
                    stats["foreign_key_share_answers"] = stats.get("foreign_key_share_answers", 0) + 1
                    if ke2 != cr:
                        viol.append({"sig": "C09 KE2 for a request with a non-honest (but valid) key share differs from the specification",
                                     "what": "%s: client_e_pk %s: implementation %s model %s" % (su, fk.hex(), r.msg[-2 * m.nh:], ke2.hex()[-2 * m.nh:])})
                    elif bx(r.state) != state_m:
                        viol.append({"sig": "C09 server pending state for a request with a non-honest key share differs from the specification",
                                     "what": "%s: client_e_pk %s" % (su, fk.hex())})
            case = {"suite": su, "world": wi, "pw": pw[0], "cred": cred[0], "id_u": idu[0], "id_s": ids_[0], "ctx": ctx[0],
                    "fake_record": fake, "wire": wire, "ksf": ksfn}
            for what, got, want in bad:
                viol.append({"sig": "C09 %s differs from the specification" % what,
                             "what": "%s: %s: implementation %s, model %s; case %s" % (su, what, str(got)[:200], str(want)[:200], case)})
            stats["worlds"] += 1
            stats["fake_worlds"] += int(fake)
            stats["compared_values"] += 14 if fake else 31
            seen.add((pw[0], cred[0], idu[0], ids_[0], ctx[0], fake, str(ksfn)))
            if not samples and not fake:
                samples.append(dict(case, KE2=lg.cresp[:64] + "...", session_key=lg.session_key_c, model_agrees=not bad))
            s.cmd("clear")
    stats["suites"][su] = stats["worlds"]
    return {"evals": evals, "nontrivial": len(seen), "samples": samples, "violations": viol, "inconclusive": [], "stats": stats}


def floors(tier, stats, results):
    missing = [x for x in okv.SUITES20 + okv.ARGON_SUITES if stats.get("suites", {}).get(x, 0) < (4 if ":" not in x else 2)]
    out = []
    if missing:
        out.append("fewer than 4 model-checked worlds for suites %s" % missing)
    if stats.get("fake_worlds", 0) < 20:
        out.append("fewer than 20 fake-record worlds")
    if stats.get("coincidence_hits", 0) < 40:
        out.append("fewer than 40 worlds in which two of the key-exchange public keys coincide")
    return out
