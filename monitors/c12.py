"""C12 - total, panic-free handling of every input.

Refuting events: a recorded call without a reply (abort, stack overflow, signal), a reply carrying
a caught panic, a sanitizer report, a call exceeding the progress bound twice, or a
registration/login step that ACCEPTS an over-limit (>= 65536-byte) password, identity or context
instead of refusing it. The same recorded command scripts are replayed under the
overflow-checks/debug-assertions build, AddressSanitizer, valgrind memcheck and Miri; replies must
be identical to the production build's (and free of reports).
"""
import json
import os
import subprocess
import time

from . import okv, proto

LEVEL = "exploration"
RULE = ("per suite: (a) every native / bincode / JSON decoder (11 message+state types, private and public keys) on random "
        "strings and structure-aware mutations of valid encodings (bit flips, truncation, extension, cross-message "
        "splicing, zero/0xff runs, deletions); (b) every protocol step fed well-formed messages from unrelated sessions / "
        "servers, reflected elements and mutated-but-decodable messages; (c) the length grid {0,1,255,256,65535,65536,"
        "65537,131072} for password, credential id, both identities and context at every step that takes them; (d) key "
        "API entry points with every length and extreme values; the recorded scripts are re-executed under the "
        "overflow/debug-assertion build and ASan (quick) plus valgrind memcheck and Miri shards (thorough; light Miri in "
        "quick); non-trivial = an input that got past at least the first structural check (decoded, or a protocol step "
        "reached); distinct = distinct (suite, command)")
ASSUMPTIONS = ["Curve25519::hash_to_scalar is a documented unimplemented!() trait stub that no library path calls; it is not driven",
               "credential identifiers have no length limit (C01) and are excluded from the over-limit clause",
               "non-termination is restated as bounded progress: a call exceeding 120 s (typical 0.1-10 ms) is retried from its recorded script and reported only if it exceeds the bound again",
               "Miri shards run under a budget; a shard that runs out of budget is partial coverage, not a failure"]
FLAVOURS = {"quick": ["release", "ovf", "asan"], "thorough": ["release", "ovf", "asan"]}
JOB_TIMEOUT = {"quick": 1500, "thorough": 10800}
GRID = [0, 1, 255, 256, 65535, 65536, 65537, 131072]
LIMIT = 65535
RUN = os.path.join(okv.VERIF, "run", "c12")
ALLKINDS = proto.KINDS11 + ["sk", "pk"]


def jobs(tier, seed):
    out = []
    for su in okv.SUITES20:
        out.append({"suite": su, "seed": seed, "tier": tier, "cost": okv.suite_cost(su) + 50, "scale": 1.0, "replay": ["ovf", "asan"]})
    for su in okv.MON_SUITES[:2] + ["r255+r255:id", okv.ARGON_SUITES[1]]:
        out.append({"suite": su, "seed": seed, "tier": tier, "cost": 30, "scale": 0.3, "replay": ["ovf"]})
    # Miri: tiny scripts; quick = decoders + key API on the two 25519-family suites, thorough = one shard per suite incl. an honest flow
    miri = ["r255+r255", "r255+x25519"] if tier == "quick" else okv.SUITES20
    for su in miri:
        out.append({"suite": su, "seed": seed, "tier": tier, "cost": 500, "scale": 0.0, "miri": True,
                    "timeout": 1400 if tier == "quick" else 3 * 3600})
    if tier == "thorough":
        for su in okv.SUITES20:
            out.append({"suite": su, "seed": seed, "tier": tier, "cost": 300, "scale": 0.1, "valgrind": True, "replay": []})
    return out


class StopDrive(Exception):
    """the interpreter process is gone (killed after exceeding the progress bound, or died): nothing more can be driven"""


def drive(s, su, seed, scale, stats, notes, miri=False):
    """the workload. Every reply is inspected by `look`; returns nothing (verdicts via notes)."""
    rnd = proto.pyrng("c12", su, seed, str(scale))
    sz = s.sz

    def look(r, what, over_limit=None):
        stats["calls"] += 1
        if r.get("timeout"):
            notes.append(("timeout", what, r))
            raise StopDrive()
        elif r.get("died"):
            notes.append(("died", what, r))
            raise StopDrive()
        elif r.get("panic"):
            notes.append(("panic", what, r))
        if r.ok:
            stats["ok"] += 1
        else:
            stats["err"] += 1
            e = str(r.get("err"))
            e = "serde" if e.startswith("serde:") else e
            stats["errs"][e] = stats["errs"].get(e, 0) + 1
        return r

    # two honest worlds on different setups
    c1, st1, reg1, lg1 = proto.corpus(s, proto.H("c12a", su, seed), pw=b"pw-one", cred=b"cred-one", tag="a")
    c2, st2, reg2, lg2 = proto.corpus(s, proto.H("c12b", su, seed), pw=b"pw-two", cred=b"cred-two", id_u=b"u2", id_s=b"s2", ctx=b"ctx2", tag="b")
    for f in (reg1, lg1, reg2, lg2):
        for nm, r in f.steps:
            look(r, "honest " + nm)
    if c1 is None or c2 is None:
        notes.append(("control", "honest flow failed", {"a": reg1.first_failure() or lg1.first_failure(), "b": reg2.first_failure() or lg2.first_failure()}))
        return
    if miri:
        # Miri shard: a handful of decoder probes on top of the two honest flows above
        for kind in ("creq", "cresp", "rupl", "clogin", "setup"):
            v = c1[kind]
            for x in (v, v[:-1], v + b"\x00", bytes(len(v)), b"\xff" * len(v), v[:3] + bytes([v[3] ^ 1]) + v[4:]):
                look(s.de(kind, x, out="m"), "miri decode %s" % kind)
        look(s.cmd("k_all", sk=c1["setup"][sz.nh:sz.nh + sz.nsk]), "miri k_all")
        look(s.cmd("clogin_finish", state="al.cl", pw=b"wrong", resp="al.cr", out="m2"), "miri wrong password")
        look(s.cmd("clogin_finish", state="al.cl", pw=b"pw-one", resp="bl.cr", out="m2"), "miri foreign response")
        return
    # ---------------------------------------------------------------- (a) decoders, in volume
    n = max(20, int(300 * scale)) if scale <= 1 else int(300 * scale)
    for kind in ALLKINDS:
        bases = [c1[kind], c2[kind]] if kind in c1 else [c1["setup"][sz.nh:sz.nh + sz.nsk], bytes.fromhex(st1.pk)] if kind == "sk" else [bytes.fromhex(st1.pk), bytes.fromhex(st2.pk)]
        # splice donors: other kinds of the same world (equal-length windows)
        donors = bases + [c1[k] for k in ("cresp", "clogin", "rupl")]
        for codec in ("native", "bincode", "json"):
            if codec == "native":
                b = donors
            else:
                h = {"setup": "aS", "rreq": "ag.rq", "rresp": "ag.rr", "rupl": "ag.up", "file": "ag.file", "creg": "ag.cs", "creq": "al.cq", "cresp": "al.cr",
                     "cfin": "al.cf", "clogin": "al.cl", "slogin": "al.sl"}.get(kind)
                if h is None:
                    continue
                d = s.ser(h, codec).data
                b = [d.encode() if codec == "json" else bytes.fromhex(d)]
            r = look(s.cmd("fuzz_de", kind=kind, codec=codec, n=n, seed=proto.H("fz", su, seed, kind, codec), bases=[x.hex() for x in b]), "fuzz_de %s/%s" % (kind, codec))
            if r.ok:
                stats["fuzz_inputs"] += r.n
                stats["fuzz_decoded"] += r.decoded
                stats["calls"] += r.n
                for p_ in r.panics:
                    notes.append(("panic", "%s::deserialize (%s) on %s" % (kind, codec, p_["input"][:200]), {"panic": p_["panic"]}))
                for x in r.noncanon:
                    notes.append(("noncanon", "%s decoded %s non-canonically" % (kind, x[:200]), {}))
    # (a') systematic: every prefix of every valid encoding, short extensions, and each group-element / scalar field set to
    # all-zero / all-0xff / its own bytes reversed (these get past length checks and reach the inner decoders)
    for kind in proto.KINDS11:
        v = c1[kind]
        for L in range(len(v)):
            look(s.de(kind, v[:L], out="tr"), "decode %s truncated to %d" % (kind, L))
        for ext in (1, 2, 31, 32, 33, 64):
            look(s.de(kind, v + bytes(ext), out="tr"), "decode %s extended by %d" % (kind, ext))
        for name, off, ln, cls in sz.fields(kind):
            for fill in (bytes(ln), b"\xff" * ln, v[off:off + ln][::-1], b"\x01" + bytes(ln - 1), bytes(ln - 1) + b"\x01"):
                look(s.de(kind, v[:off] + fill + v[off + ln:], out="tr"), "decode %s with %s := constant" % (kind, name))
    # ---------------------------------------------------------------- (b) adversarial but well-formed messages at every step
    A = {"S": "aS", "cs": "ag.cs", "rq": "ag.rq", "rr": "ag.rr", "up": "ag.up", "file": "ag.file", "cl": "al.cl", "cq": "al.cq", "sl": "al.sl", "cr": "al.cr", "cf": "al.cf"}
    B = {"S": "bS", "cs": "bg.cs", "rq": "bg.rq", "rr": "bg.rr", "up": "bg.up", "file": "bg.file", "cl": "bl.cl", "cq": "bl.cq", "sl": "bl.sl", "cr": "bl.cr", "cf": "bl.cf"}
    rng = s.rng("adv", proto.H("c12adv", su, seed))
    for X, Y, pwx in ((A, B, b"pw-one"), (B, A, b"pw-two")):
        look(s.cmd("sreg_start", setup=X["S"], req=Y["rq"], cred=b"x", out="t1"), "sreg_start foreign request")
        look(s.cmd("creg_finish", rng=rng, state=X["cs"], pw=pwx, resp=Y["rr"], out="t2"), "creg_finish foreign response")
        look(s.cmd("creg_finish", rng=rng, state=X["cs"], pw=b"", resp=X["rr"], id_u=b"", id_s=b"", out="t2"), "creg_finish empty everything")
        look(s.cmd("slogin_start", rng=rng, setup=X["S"], file=Y["file"], req=Y["cq"], cred=b"cred-one", out_state="t3", out_msg="t4"), "slogin_start foreign file+request")
        look(s.cmd("slogin_start", rng=rng, setup=X["S"], file=None, req=Y["cq"], cred=b"", ctx=b"", id_u=b"", id_s=b"", out_state="t3", out_msg="t4"), "slogin_start none/empty")
        look(s.cmd("clogin_finish", state=X["cl"], pw=pwx, resp=Y["cr"], out="t5"), "clogin_finish foreign response")
        look(s.cmd("clogin_finish", state=X["cl"], pw=b"", resp=X["cr"], ctx=b"", id_u=b"", id_s=b"", out="t5"), "clogin_finish empty everything")
        look(s.cmd("slogin_finish", state=X["sl"], fin=Y["cf"]), "slogin_finish foreign finalization")
    # reflected elements
    look(s.de("rresp", c1["rreq"] + bytes.fromhex(st1.pk), out="rf1"), "decode reflected registration response")
    look(s.cmd("creg_finish", rng=rng, state="ag.cs", pw=b"pw-one", resp="rf1", out="t2"), "creg_finish reflected element")
    x = c1["creq"][:sz.noe] + c1["cresp"][sz.noe:]
    if look(s.de("cresp", x, out="rf2"), "decode reflected credential response").ok:
        look(s.cmd("clogin_finish", state="al.cl", pw=b"pw-one", resp="rf2", out="t5"), "clogin_finish reflected element")
    def feed(step):
        """use the decoded object "mut" in the protocol step it belongs to"""
        if step == "creg_finish":
            look(s.cmd("creg_finish", rng=rng, state="ag.cs", pw=b"pw-one", resp="mut", out="t2"), step)
        elif step == "slogin_start":
            look(s.cmd("slogin_start", rng=rng, setup="aS", file="ag.file", req="mut", cred=b"cred-one", out_state="t3", out_msg="t4"), step)
        elif step == "slogin_start_file":
            look(s.cmd("slogin_start", rng=rng, setup="aS", file="mut", req="al.cq", cred=b"cred-one", out_state="t3", out_msg="t4"), step)
        elif step == "clogin_finish":
            look(s.cmd("clogin_finish", state="al.cl", pw=b"pw-one", resp="mut", out="t5"), step)
        elif step == "slogin_finish":
            look(s.cmd("slogin_finish", state="al.sl", fin="mut"), step)
        elif step == "sreg_finish":
            look(s.cmd("sreg_finish", upload="mut", out="t6"), step)
        elif step == "creg_finish_state":
            look(s.cmd("creg_finish", rng=rng, state="mut", pw=b"pw-one", resp="ag.rr", out="t2"), step)
        elif step == "clogin_finish_state":
            look(s.cmd("clogin_finish", state="mut", pw=b"pw-one", resp="al.cr", out="t5"), step)
        elif step == "slogin_finish_state":
            look(s.cmd("slogin_finish", state="mut", fin="al.cf"), step)
        elif step == "setup_use":
            look(s.cmd("sreg_start", setup="mut", req="ag.rq", cred=b"c", out="t1"), step)
            look(s.cmd("slogin_start", rng=rng, setup="mut", file="ag.file", req="al.cq", cred=b"cred-one", out_state="t3", out_msg="t4"), step)
    # mutated-but-decodable messages into the steps
    nm = max(10, int(60 * scale))
    for i in range(nm):
        for kind, step in (("rresp", "creg_finish"), ("creq", "slogin_start"), ("file", "slogin_start_file"), ("cresp", "clogin_finish"), ("cfin", "slogin_finish"),
                           ("rupl", "sreg_finish"), ("creg", "creg_finish_state"), ("clogin", "clogin_finish_state"), ("slogin", "slogin_finish_state"), ("setup", "setup_use")):
            v = bytearray(c1[kind] if i % 3 else c2[kind])
            for _ in range(1 + rnd.randrange(3)):
                p_ = rnd.randrange(len(v))
                v[p_] ^= 1 << rnd.randrange(8)
            if i % 5 == 0:
                other = c2[kind]
                a_ = rnd.randrange(len(v))
                v[a_:a_ + 40] = other[a_:a_ + 40]
            d = look(s.de(kind, bytes(v), out="mut"), "decode mutated %s" % kind)
            if not d.ok:
                continue
            stats["mutants_decoded"] += 1
            feed(step)
    # the serde forms carry structure the native forms do not (enum variant tags, sequence lengths): every small-integer byte
    # of the bincode form set to 0,1,2,3,255 and the envelope-mode name exchanged in the JSON form; whatever still decodes is used
    HND = {"rresp": "ag.rr", "creq": "al.cq", "file": "ag.file", "cresp": "al.cr", "cfin": "al.cf", "rupl": "ag.up", "creg": "ag.cs", "clogin": "al.cl",
           "slogin": "al.sl", "setup": "aS"}
    for kind, step in (("rresp", "creg_finish"), ("creq", "slogin_start"), ("file", "slogin_start_file"), ("cresp", "clogin_finish"), ("cfin", "slogin_finish"),
                       ("rupl", "sreg_finish"), ("creg", "creg_finish_state"), ("clogin", "clogin_finish_state"), ("slogin", "slogin_finish_state"), ("setup", "setup_use")):
        e = s.ser(HND[kind], "bincode")
        if e.ok:
            bv = bytes.fromhex(e.data)
            offs = [o for o in range(len(bv)) if bv[o] <= 2 and (o < 16 or bv[max(0, o - 3):o + 4].count(0) >= 3)]
            for o in offs[:48]:
                for val in (0, 1, 2, 3, 255):
                    if val == bv[o]:
                        continue
                    d = look(s.de(kind, bv[:o] + bytes([val]) + bv[o + 1:], codec="bincode", out="mut"), "decode %s (bincode, byte %d := %d)" % (kind, o, val))
                    stats["serde_struct_mutants"] = stats.get("serde_struct_mutants", 0) + 1
                    if d.ok:
                        stats["mutants_decoded"] += 1
                        feed(step)
        e = s.ser(HND[kind], "json")
        if e.ok:
            for a_, b_ in (("Internal", "Zero"), ("Zero", "Internal"), ("Internal", "internal"), ("\"Internal\"", "1"), ("\"Internal\"", "0")):
                if a_ in e.data:
                    d = look(s.de(kind, e.data.replace(a_, b_), codec="json", out="mut"), "decode %s (json, %s -> %s)" % (kind, a_, b_))
                    stats["serde_struct_mutants"] = stats.get("serde_struct_mutants", 0) + 1
                    if d.ok:
                        stats["mutants_decoded"] += 1
                        feed(step)
    # ---------------------------------------------------------------- (c) the length grid
    def blob(L, ch):
        return bytes([ch]) * L

    for L in GRID:
        over = L > LIMIT
        # password
        pw = blob(L, 0x70)
        a = look(s.cmd("creg_start", rng=rng, pw=pw, out_state="g.cs", out_msg="g.rq"), "creg_start pw len %d" % L)
        done = False
        if a.ok:
            b = look(s.cmd("sreg_start", setup="aS", req="g.rq", cred=b"grid", out="g.rr"), "sreg_start")
            c = look(s.cmd("creg_finish", rng=rng, state="g.cs", pw=pw, resp="g.rr", out="g.up"), "creg_finish pw len %d" % L) if b.ok else b
            done = bool(c.ok)
            if done:
                look(s.cmd("sreg_finish", upload="g.up", out="g.file"), "sreg_finish")
                e = look(s.cmd("clogin_start", rng=rng, pw=pw, out_state="g.cl", out_msg="g.cq"), "clogin_start pw len %d" % L)
                if e.ok:
                    f = look(s.cmd("slogin_start", rng=rng, setup="aS", file="g.file", req="g.cq", cred=b"grid", out_state="g.sl", out_msg="g.cr"), "slogin_start")
                    g = look(s.cmd("clogin_finish", state="g.cl", pw=pw, resp="g.cr", out="g.cf"), "clogin_finish pw len %d" % L) if f.ok else f
                    if over and g.ok:
                        notes.append(("overlimit", "login completed with a %d-byte password" % L, {}))
                    if not over and not g.ok:
                        notes.append(("inlimit", "login with a %d-byte password failed: %s" % (L, g.get("err")), {}))
        stats["grid"] += 1
        if over and done:
            notes.append(("overlimit", "registration completed with a %d-byte password" % L, {}))
        if not over and not done:
            notes.append(("inlimit", "registration with a %d-byte password failed" % L, {}))
        # credential identifier: any length works
        cred = blob(L, 0x63)
        f = proto.register(s, rng, "aS", b"pw", cred, wire=False, tag="gc")
        for nm_, r in f.steps:
            look(r, "cred len %d %s" % (L, nm_))
        if f.ok:
            lg = proto.login(s, rng, rng, "aS", "gc.file", b"pw", cred, wire=False, tag="gcl")
            for nm_, r in lg.steps:
                look(r, "cred len %d %s" % (L, nm_))
            if not lg.ok:
                notes.append(("inlimit", "login with a %d-byte credential identifier failed: %s" % (L, lg.first_failure()), {}))
        else:
            notes.append(("inlimit", "registration with a %d-byte credential identifier failed: %s" % (L, f.first_failure()), {}))
        stats["grid"] += 1
        # identities and context at each of the three steps that take them
        for slot in ("id_u", "id_s", "ctx"):
            v = blob(L, 0x69)
            kw = {slot: v}
            stats["grid"] += 1
            if slot != "ctx":
                r = look(s.cmd("creg_finish", rng=rng, state="ag.cs", pw=b"pw-one", resp="ag.rr", out="gi.up", **kw), "creg_finish %s len %d" % (slot, L))
                if over and r.ok:
                    notes.append(("overlimit", "ClientRegistration::finish accepted a %d-byte %s" % (L, slot), {}))
                if not over and not r.ok:
                    notes.append(("inlimit", "ClientRegistration::finish refused a %d-byte %s: %s" % (L, slot, r.get("err")), {}))
                if r.ok:
                    look(s.cmd("sreg_finish", upload="gi.up", out="gi.file"), "sreg_finish")
                    fh = "gi.file"
                else:
                    fh = "ag.file"
            else:
                fh = "ag.file"
            r = look(s.cmd("slogin_start", rng=rng, setup="aS", file=fh, req="al.cq", cred=b"cred-one", out_state="gi.sl", out_msg="gi.cr", **kw), "slogin_start %s len %d" % (slot, L))
            if over and r.ok:
                notes.append(("overlimit", "ServerLogin::start accepted a %d-byte %s" % (L, slot), {}))
            if not over and not r.ok:
                notes.append(("inlimit", "ServerLogin::start refused a %d-byte %s: %s" % (L, slot, r.get("err")), {}))
            resp = "gi.cr" if r.ok else "al.cr"
            r = look(s.cmd("clogin_finish", state="al.cl", pw=b"pw-one", resp=resp, out="gi.cf", **kw), "clogin_finish %s len %d" % (slot, L))
            if over and r.ok:
                notes.append(("overlimit", "ClientLogin::finish accepted a %d-byte %s" % (L, slot), {}))
            if not over and not r.ok and fh != "ag.file" or (not over and not r.ok and slot == "ctx"):
                notes.append(("inlimit", "ClientLogin::finish failed with matching %d-byte %s: %s" % (L, slot, r.get("err")), {}))
    # ---------------------------------------------------------------- (d) key API
    for L in list(range(0, 2 * sz.nsk + 3)) + [1000]:
        for fill in (0x00, 0xff, 0x01):
            b = bytes([fill]) * L
            look(s.cmd("k_all", sk=b), "k_all len %d" % L)
            look(s.de("pk", b, out="kx"), "PublicKey::deserialize len %d" % L)
            look(s.de("sk", b, out="kx"), "PrivateKey::deserialize len %d" % L)
            look(s.cmd("k_dh", sk=b, pk=b), "k_dh len %d" % L)
    for i in range(max(5, int(40 * scale))):
        b = bytes(rnd.randrange(256) for _ in range(sz.nsk))
        look(s.cmd("k_all", sk=b), "k_all random")
        look(s.cmd("k_dh", sk=c1["setup"][sz.nh:sz.nh + sz.nsk], pk=bytes(rnd.randrange(256) for _ in range(sz.npk))), "k_dh random pk")
        look(s.cmd("g_derive", seed=b), "g_derive random")
    look(s.cmd("g_derive", seed=bytes(sz.nsk)), "g_derive zero")
    look(s.cmd("g_random_sk", rng=rng), "random_sk")
    look(s.cmd("setup_new_with_key", rng=rng, sk=bytes(sz.nsk), out="kz"), "new_with_key zero key")
    look(s.cmd("setup_new_with_key", rng=rng, sk=b"\xff" * sz.nsk, ext=True, out="kz"), "new_with_key ff key ext")
    # handle-style external keys (SecretKey::Len = 12 / 80, unrelated to the scalar length): build, encode, decode at all lengths
    for hnd, kind in (("short", "setuphs"), ("long", "setuphl")):
        r = look(s.cmd("setup_new_with_key", rng=rng, sk=c1["setup"][sz.nh:sz.nh + sz.nsk], hnd=hnd, out="kh"), "new_with_key handle-%s key" % hnd)
        if r.ok:
            hv = bytes.fromhex(r.ser)
            for x in [hv, hv + b"\x00", c1["setup"], bytes(len(hv)), b"\xff" * len(hv)] + [hv[:L] for L in range(0, len(hv), 7)]:
                look(s.de(kind, x, out="kh2"), "decode %s (%d bytes)" % (kind, len(x)))
            look(s.cmd("sreg_start", setup="kh", req="ag.rq", cred=b"c"), "sreg_start handle-%s key" % hnd)
            look(s.cmd("slogin_start", rng=rng, setup="kh", file="ag.file", req="al.cq", cred=b"c", out_state="kh.sl", out_msg="kh.cr"), "slogin_start handle-%s key" % hnd)
    # ---------------------------------------------------------------- (e) caller-supplied KSF instances, incl. unusable configurations
    if s.info.ksf == "argon2":
        cfgs = [{"m": 8 * p_, "t": 1, "p": p_, "out": o_} for p_ in (1, 2) for o_ in (None, 4, 16, sz.nh - 1, sz.nh, sz.nh + 1, 64, 65, 128, 1024)]
        cfgs += [{"m": 64, "t": 1, "p": 1, "alg": a_, "ver": v_, "out": o_} for a_ in ("i", "d") for v_ in (16, 19) for o_ in (None, 64)]
    elif s.info.ksf == "hksf":
        cfgs = [0, 1, 2, 7]
    else:
        cfgs = []
    for ci, cfg in enumerate(cfgs):
        look(s.cmd("ksf_new", id="kk", param=cfg), "ksf_new %s" % (cfg,))
        look(s.cmd("creg_start", rng=rng, pw=b"pw-k", out_state="kk.cs", out_msg="kk.rq"), "creg_start")
        look(s.cmd("sreg_start", setup="aS", req="kk.rq", cred=b"kk", out="kk.rr"), "sreg_start")
        r = look(s.cmd("creg_finish", rng=rng, state="kk.cs", pw=b"pw-k", resp="kk.rr", ksf="kk", out="kk.up", params_via=["new", "literal"][ci % 2]),
                 "creg_finish with KSF instance %s" % (cfg,))
        look(s.cmd("clogin_finish", state="al.cl", pw=b"pw-one", resp="al.cr", ksf="kk", out="kk.cf", params_via=["literal", "new"][ci % 2]),
             "clogin_finish with KSF instance %s" % (cfg,))
        stats["ksf_instances"] = stats.get("ksf_instances", 0) + 1


def compare_replies(native, other_path, flavour, viol, su, stats):
    """replies of a sanitizer/alternative build must equal the production build's, call by call"""
    try:
        lines = open(other_path).read().split("\n")
    except OSError:
        viol.append({"sig": "C12 %s run produced no log" % flavour, "what": su})
        return
    replies, calls, ended = [], [], False
    for ln in lines:
        if not ln:
            continue
        o = json.loads(ln)
        if o.get("t") == "call":
            calls.append(o)
        elif o.get("t") == "end":
            ended = True
        else:
            replies.append(ln)
    stats["replayed_%s" % flavour] = stats.get("replayed_%s" % flavour, 0) + len(replies)
    if not ended:
        last = calls[-1] if calls else None
        viol.append({"sig": "C12 process died under the %s build (open call)" % flavour, "what": "%s: the %s run stopped inside call %s" % (su, flavour, last)})
    for i, (a, b) in enumerate(zip(native, replies)):
        if a != b:
            ja, jb = json.loads(a), json.loads(b)
            if jb.get("panic"):
                viol.append({"sig": "C12 panic under the %s build" % flavour, "what": "%s call %d (%s): %s" % (su, i + 1, calls[i].get("op") if i < len(calls) else "?", jb["panic"])})
            else:
                viol.append({"sig": "C12 %s build disagrees with the production build" % flavour,
                             "what": "%s call %d (%s): production %s vs %s %s" % (su, i + 1, calls[i].get("op") if i < len(calls) else "?", a[:200], flavour, b[:200])})
            break


def run_job(job):
    su, tier = job["suite"], job["tier"]
    os.makedirs(RUN, exist_ok=True)
    tagname = "%s-%s-%s" % (su.replace("+", "_").replace(":", "_"), "miri" if job.get("miri") else ("vg" if job.get("valgrind") else "n"), os.getpid())
    script = os.path.join(RUN, tagname + ".script")
    viol, samples = [], []
    stats = {"calls": 0, "ok": 0, "err": 0, "errs": {}, "fuzz_inputs": 0, "fuzz_decoded": 0, "mutants_decoded": 0, "grid": 0}
    notes = []
    t0 = time.time()
    s = okv.Session(su, tee=script, record=True)
    s.call_timeout = 120
    stopped = False
    try:
        drive(s, su, job["seed"], job["scale"], stats, notes, miri=bool(job.get("miri")))
    except StopDrive:
        stopped = True
    finally:
        native = list(s.raw)
        s.close()
    stats["native_s"] = round(time.time() - t0, 1)
    for kind, what, r in notes:
        if kind == "panic":
            p = r.get("panic", {})
            viol.append({"sig": "C12 panic at %s" % p.get("loc", "?"), "what": "%s: %s panicked: %s at %s" % (su, what, p.get("msg"), p.get("loc"))})
        elif kind == "died":
            viol.append({"sig": "C12 process died (abort/signal) inside a call", "what": "%s: %s: return code %s, stderr %s, open call %s" % (
                su, what, r.get("returncode"), str(r.get("stderr"))[-400:], str(r.get("open_call"))[:300])})
        elif kind == "timeout":
            # bounded progress: replay the recorded script once more with a larger bound before reporting
            try:
                subprocess.run([okv.binary("release"), su, "--script", script, "--out", script + ".retry"], timeout=stats["native_s"] + 300, capture_output=True)
                finished = '"t":"end"' in open(script + ".retry").read()[-200:]
            except subprocess.TimeoutExpired:
                finished = False
            if not finished:
                viol.append({"sig": "C12 call does not terminate within the progress bound (twice)", "what": "%s: %s; open call %s" % (su, what, str(r.get("open_call"))[:300])})
        elif kind == "overlimit":
            viol.append({"sig": "C12 over-limit input accepted: %s" % what.split(" a ")[0], "what": "%s: %s (inputs beyond 65535 bytes must be refused, never truncated or wrapped)" % (su, what)})
        elif kind == "inlimit":
            viol.append({"sig": "C12 in-limit input refused: %s" % what.split(":")[0][:60], "what": "%s: %s" % (su, what)})
        elif kind == "noncanon":
            stats["noncanon_seen"] = stats.get("noncanon_seen", 0) + 1      # a C10 matter; recorded, not judged here
        elif kind == "control":
            viol.append({"sig": "C12 control: honest flow failed", "what": "%s: %s" % (su, r)})
    samples.append({"suite": su, "script_commands": len(native), "calls_incl_in_process_fuzz": stats["calls"], "outcomes": {"ok": stats["ok"], "err": stats["err"]},
                    "top_errors": sorted(stats["errs"].items(), key=lambda kv: -kv[1])[:5]})
    inconcl = []
    # ------------------------------------------------------------- other build flavours on the same script
    # (not when the production run already died or hung: the replays would only repeat that)
    for fl in ([] if stopped else job.get("replay", [])):
        outp = script + "." + fl
        env = dict(os.environ)
        if fl == "asan":
            env["ASAN_OPTIONS"] = "detect_leaks=0:halt_on_error=1:abort_on_error=1"
        t1 = time.time()
        try:
            p = okv.run_script(su, script, outp, flavour=fl, timeout=1200 if tier == "quick" else 7200, env=env)
        except subprocess.TimeoutExpired:
            inconcl.append("%s replay exceeded its wall-clock budget" % fl)
            continue
        stats["%s_s" % fl] = round(time.time() - t1, 1)
        if fl == "asan" and b"AddressSanitizer" in p.stderr:
            first = p.stderr.decode("latin1")
            i = first.find("ERROR: AddressSanitizer")
            viol.append({"sig": "C12 AddressSanitizer report", "what": "%s: %s" % (su, first[i:i + 1500])})
        compare_replies(native, outp, fl, viol, su, stats)
        for f_ in (outp,):
            try:
                os.remove(f_)
            except OSError:
                pass
    if job.get("valgrind") and not stopped:
        outp = script + ".vg"
        t1 = time.time()
        try:
            p = okv.run_script(su, script, outp, flavour="release", timeout=7200,
                               wrapper=["valgrind", "--quiet", "--error-exitcode=99", "--errors-for-leak-kinds=none", "--leak-check=no"])
            stats["valgrind_s"] = round(time.time() - t1, 1)
            if p.returncode == 99 or b"== Invalid" in p.stderr or b"uninitialised" in p.stderr:
                viol.append({"sig": "C12 valgrind memcheck report", "what": "%s: %s" % (su, p.stderr.decode("latin1")[:1500])})
            compare_replies(native, outp, "valgrind", viol, su, stats)
        except subprocess.TimeoutExpired:
            inconcl.append("valgrind replay exceeded its wall-clock budget (partial coverage)")
        try:
            os.remove(outp)
        except OSError:
            pass
    if job.get("miri") and not stopped:
        outp = script + ".miri"
        env = dict(os.environ, MIRIFLAGS="-Zmiri-disable-isolation", CARGO_NET_OFFLINE="true")
        env.pop("RUSTFLAGS", None)
        t1 = time.time()
        try:
            p = subprocess.run(["cargo", "+nightly", "miri", "run", "--offline", "--target-dir", "target-miri", "--", su, "--script", script, "--out", outp],
                               cwd=okv.HARNESS, env=env, capture_output=True, timeout=job.get("timeout", 1400) - 60 - (time.time() - t0))
            stats["miri_s"] = round(time.time() - t1, 1)
            err = p.stderr.decode("latin1")
            if "Undefined Behavior" in err or "error: unsupported operation" in err or "memory leaked" in err:
                i = max(err.find("error"), 0)
                if "unsupported operation" in err:
                    inconcl.append("Miri cannot execute an operation this script needs: %s" % err[i:i + 400])
                else:
                    viol.append({"sig": "C12 Miri report (undefined behaviour)", "what": "%s: %s" % (su, err[i:i + 1500])})
            elif p.returncode != 0:
                inconcl.append("Miri run failed (exit %d): %s" % (p.returncode, err[-600:]))
            else:
                compare_replies(native, outp, "miri", viol, su, stats)
                stats["miri_shards_completed"] = 1
        except subprocess.TimeoutExpired:
            stats["miri_partial"] = 1      # out of budget: partial coverage, not a failure
        try:
            os.remove(outp)
        except OSError:
            pass
    if not viol:
        try:
            os.remove(script)
        except OSError:
            pass
    stats["suites"] = {su: stats["calls"]}
    nontriv = stats["ok"] + stats["fuzz_decoded"] + stats["mutants_decoded"]
    return {"evals": stats["calls"], "nontrivial": nontriv, "samples": samples, "violations": viol, "inconclusive": inconcl, "stats": stats}


def floors(tier, stats, results):
    out = []
    missing = [x for x in okv.SUITES20 if stats.get("suites", {}).get(x, 0) < 3000]
    if missing:
        out.append("fewer than 3000 calls for suites %s" % missing)
    for fl in ("ovf", "asan"):
        if stats.get("replayed_%s" % fl, 0) < 20 * 500:
            out.append("fewer than 500 commands per suite replayed under %s" % fl)
    if stats.get("miri_shards_completed", 0) < 1 and not stats.get("miri_partial"):
        out.append("no Miri shard completed")
    return out
