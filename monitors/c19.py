"""C19 - key-exchange group operations obey their laws.

For each of the 5 groups, paired with each of the 4 OPRF suites for seeded derivation: DH is
symmetric; the three routes from a private key to its public key agree; key encodings round-trip
exactly; seeded derivation yields a valid non-zero key that equals the specification's
DeriveDiffieHellmanKeyPair (RFC 7748 clamping for Curve25519) - all additionally compared with the
reference model's independent arithmetic, so a self-consistent wrong law is caught too.
"""
from . import okv, proto
from .refmodel import c25519, nist, selftest
from .refmodel.groups import KeGroupModel, OprfSuite

LEVEL = "exploration"
RULE = ("per (OPRF suite, KE group): private keys in {random, 1, 2, order-1, order-2 | clamped minimum 2^254, clamped "
        "maximum, random clamped}, seeds in {random, all-zero, all-0xFF, 0x01||0.., 0x00..01}; oracles: dh(pk(a),b) = "
        "dh(pk(b),a) = model; PrivateKey::public_key = KeGroup::public_key = KeyPair::from_private_key(..).public() = "
        "model; decode(encode(k)) = k; derive_auth_keypair(seed) = model's DeriveDiffieHellmanKeyPair, non-zero, "
        "decodable; run in the release and the overflow-checks/debug-assertions builds; non-trivial = a key / pair / "
        "seed whose results were compared; distinct = distinct (suite, flavour, key or seed)")
ASSUMPTIONS = ["reference model gated by RFC 7748 / 9496 / 9497 / 9380 vectors"]
FLAVOURS = {"quick": ["release", "ovf"], "thorough": ["release", "ovf"]}

CURVES = {"p256": nist.P256, "p384": nist.P384, "p521": nist.P521}


def jobs(tier, seed):
    out = []
    for su in okv.SUITES20:
        for fl in ("release", "ovf"):
            out.append({"suite": su, "seed": seed, "tier": tier, "flavour": fl, "cost": okv.suite_cost(su)})
    return out


def special_keys(ke, rnd, n):
    out = []
    if ke in CURVES:
        c = CURVES[ke]
        for v in (1, 2, 3, c.n - 1, c.n - 2, (c.n + 1) // 2, 2 ** (8 * c.flen - 9) if ke == "p521" else 2 ** (8 * c.flen - 1) - 1):
            if 0 < v < c.n:
                out.append(("special", v.to_bytes(c.flen, "big")))
        for _ in range(n):
            out.append(("random", rnd.randrange(1, c.n).to_bytes(c.flen, "big")))
    elif ke == "r255":
        L = c25519.L
        for v in (1, 2, 3, L - 1, L - 2, (L + 1) // 2, 2 ** 252):
            out.append(("special", v.to_bytes(32, "little")))
        for _ in range(n):
            out.append(("random", rnd.randrange(1, L).to_bytes(32, "little")))
    else:
        out.append(("clamped-min", c25519.clamp(bytes(32))))
        out.append(("clamped-max", c25519.clamp(b"\xff" * 32)))
        out.append(("clamped-pattern", c25519.clamp(b"\x55" * 32)))
        for _ in range(n):
            out.append(("random-clamped", c25519.clamp(bytes(rnd.randrange(256) for _ in range(32)))))
    return out


def run_job(job):
    ok, detail = selftest.run()
    if not ok:
        return {"evals": 0, "nontrivial": 0, "samples": [], "violations": [], "inconclusive": [detail], "stats": {}}
    su, tier, fl = job["suite"], job["tier"], job["flavour"]
    rnd = proto.pyrng("c19", su, job["seed"])
    sz = okv.Sizes(su)
    ke = KeGroupModel(sz.ke)
    oprf = OprfSuite(sz.oprf)
    viol, samples = [], []
    stats = {"keys": 0, "dh_pairs": 0, "seeds": 0, "random_sk": 0}
    evals = 0
    bx = bytes.fromhex

    def V(sig, what):
        viol.append({"sig": "C19 " + sig, "what": "%s [%s build]: %s" % (su, fl, what)})

    with okv.Session(su, flavour=fl) as s:
        n = 12 if tier == "quick" else 600
        keys = special_keys(sz.ke, rnd, n)
        pks = {}
        for lab, sk in keys:
            r = s.cmd("k_all", sk=sk)
            evals += 1
            stats["keys"] += 1
            if r.get("panic") or r.get("died"):
                V("key API panicked", "sk %s: %s" % (sk.hex(), r.get("panic")))
                continue
            want_pk = ke.pk_from_sk(sk)
            routes = {"KeGroup::public_key": r.get("g_pk"), "PrivateKey::public_key": r.get("sk_pk"), "KeyPair::from_private_key_slice": r.get("kp_pk"),
                      "KeyPair::from_private_key": r.get("kp2_pk")}
            for nm, v in routes.items():
                if not isinstance(v, str) or bx(v) != want_pk:
                    V("%s disagrees with the model's public key" % nm, "sk %s (%s): got %s want %s" % (sk.hex(), lab, v, want_pk.hex()))
            for nm in ("g_sk_re", "sk_re", "kp_sk"):
                if r.get(nm) != sk.hex():
                    V("private key encoding does not round-trip (%s)" % nm, "sk %s -> %s" % (sk.hex(), r.get(nm)))
            if r.get("pk_rt") != want_pk.hex() or r.get("pk_rt_eq") is not True:
                V("public key encoding does not round-trip", "pk %s -> %s" % (want_pk.hex(), r.get("pk_rt")))
            if r.get("sk_rt_eq") is not True or r.get("kp_serde_eq") is not True:
                V("decode(encode(key)) != key", "sk %s: %s %s" % (sk.hex(), r.get("sk_rt_eq"), r.get("kp_serde_eq")))
            if r.get("g_zero") is not False:
                V("is_zero_scalar true for a non-zero key", sk.hex())
            pks[sk] = want_pk
        ks = list(pks)
        pairs = [(ks[i], ks[(i * 7 + 3) % len(ks)]) for i in range(len(ks))] + [(ks[0], ks[0])]
        for a, b in pairs:
            r1 = s.cmd("k_dh", sk=a, pk=pks[b])
            r2 = s.cmd("k_dh", sk=b, pk=pks[a])
            evals += 2
            stats["dh_pairs"] += 1
            want = ke.dh(a, pks[b])
            vals = {"KeGroup a,pk(b)": r1.get("g_dh"), "PrivateKey a,pk(b)": r1.get("sk_dh"), "KeGroup b,pk(a)": r2.get("g_dh"), "PrivateKey b,pk(a)": r2.get("sk_dh")}
            if any(not isinstance(v, str) for v in vals.values()):
                V("Diffie-Hellman failed on valid keys", str(vals))
                continue
            if len(set(vals.values())) != 1:
                V("Diffie-Hellman is not symmetric / routes disagree", "a %s b %s: %s" % (a.hex(), b.hex(), vals))
            elif bx(r1.g_dh) != want:
                V("Diffie-Hellman output differs from the model", "a %s pk(b) %s: got %s want %s" % (a.hex(), pks[b].hex(), r1.g_dh, want.hex()))
            if bx(r1.g_dh) == bytes(len(want)):
                V("Diffie-Hellman output all-zero for valid keys", a.hex())
        # Diffie-Hellman with arbitrary VALID peer keys: for Curve25519 random u-coordinates (curve and twist) and honest keys
        # shifted by small-order points; for the other groups random multiples. Must equal the model's result.
        foreign = []
        if sz.ke == "x25519":
            for _ in range(20 if tier == "quick" else 200):
                u = bytes(rnd.randrange(256) for _ in range(32))
                if ke.valid_pk(u):
                    foreign.append(u)
            for sk_, pk_ in list(pks.items())[:4]:
                foreign += c25519.x_torsion_variants(pk_)
            foreign += [bytes.fromhex("e5210f12786811d3f4b7959d0538ae2c31dbe7106fc03c3efc4cd549c715a493"),
                        bytes.fromhex("e6db6867583030db3594c1a424b15f7c726624ec26b3353b10a903a6d0ab1c4c")]
        else:
            for _ in range(6 if tier == "quick" else 40):
                foreign.append(ke.pk_from_sk(ke.G.encode_scalar(rnd.randrange(1, ke.G.order))))
        for i_, pkf in enumerate(foreign):
            a = ks[i_ % len(ks)]
            r1 = s.cmd("k_dh", sk=a, pk=pkf)
            evals += 1
            stats["dh_pairs"] += 1
            want = ke.dh(a, pkf)
            if not isinstance(r1.get("g_dh"), str) or not isinstance(r1.get("sk_dh"), str):
                V("Diffie-Hellman failed on a valid peer key", "sk %s pk %s: %s" % (a.hex(), pkf.hex(), dict((k, r1.get(k)) for k in ("g_dh", "sk_dh"))))
            elif bx(r1.g_dh) != want or bx(r1.sk_dh) != want:
                V("Diffie-Hellman output differs from the model", "sk %s peer key %s: got %s / %s want %s" % (a.hex(), pkf.hex(), r1.g_dh, r1.sk_dh, want.hex()))
        if keys:
            samples.append({"suite": su, "flavour": fl, "sk": keys[0][1].hex(), "pk": pks.get(keys[0][1], b"").hex(), "dh_pairs": len(pairs)})
        # seeded derivation
        nsk = sz.nsk
        seeds = [("zero", bytes(nsk)), ("ones", b"\xff" * nsk), ("01||0", b"\x01" + bytes(nsk - 1)), ("0||01", bytes(nsk - 1) + b"\x01"), ("pattern", bytes(range(nsk)))]
        seeds += [("random", bytes(rnd.randrange(256) for _ in range(nsk))) for _ in range(10 if tier == "quick" else 200)]
        for lab, seed in seeds:
            r = s.cmd("g_derive", seed=seed)
            evals += 1
            stats["seeds"] += 1
            if r.failed:
                V("derive_auth_keypair failed / panicked", "seed %s (%s): %s" % (seed.hex(), lab, dict(r)))
                continue
            wsk, wpk = ke.derive_dh_keypair(oprf, seed)
            if bx(r.sk) != wsk or bx(r.pk) != wpk:
                V("derive_auth_keypair differs from the specification's DeriveDiffieHellmanKeyPair", "seed %s (%s): got sk %s want %s" % (seed.hex(), lab, r.sk, wsk.hex()))
            if r.zero is not False or bx(r.sk) == bytes(nsk):
                V("derived key is zero", seed.hex())
            if not ke.valid_sk(bx(r.sk)):
                V("derived key is not a valid private key", r.sk)
            ra = s.cmd("k_all", sk=bx(r.sk))
            evals += 1
            if ra.get("sk_re") != r.sk or ra.get("kp_pk") != r.pk:
                V("derived key does not decode back through deserialize_sk / KeyPair", "seed %s: %s" % (seed.hex(), {k: ra.get(k) for k in ("sk_re", "kp_pk", "g_de_sk", "sk_de", "kp")}))
        # random_sk yields valid non-zero keys that are functions of the RNG
        rng = s.rng("k", proto.H("c19rng", su, job["seed"]))
        got = set()
        for i in range(8 if tier == "quick" else 100):
            r = s.cmd("g_random_sk", rng=rng)
            evals += 1
            stats["random_sk"] += 1
            if r.failed or r.zero or not ke.valid_sk(bx(r.sk)):
                V("random_sk returned an invalid key", str(dict(r)))
            got.add(r.get("sk"))
        if len(got) < (8 if tier == "quick" else 100):
            V("random_sk repeats", "%d distinct" % len(got))
    stats["suites"] = {su + "/" + fl: stats["keys"]}
    return {"evals": evals, "nontrivial": stats["keys"] + stats["dh_pairs"] + stats["seeds"], "samples": samples, "violations": viol, "inconclusive": [], "stats": stats}


def floors(tier, stats, results):
    missing = [x for x in okv.SUITES20 if stats.get("suites", {}).get(x + "/release", 0) < 10 or stats.get("suites", {}).get(x + "/ovf", 0) < 10]
    return ["fewer than 10 keys per flavour for suites %s" % missing] if missing else []
