"""C02 - a wrong password never logs in.

Refuting event: ClientLogin::finish returns Ok, or an error other than InvalidLoginError, when
the password differs from the registered one at any of the places it enters login; or the
server side completes. Positive control (right password) in the same world.
"""
from . import okv, proto

LEVEL = "exploration"
RULE = ("per suite: registered passwords from the C01 classes; wrong passwords = near-miss families (every single-bit "
        "flip, prefixes, one-byte extensions incl. NUL/space/newline, case flips, NUL insert/remove, doubling, "
        "length-prefix look-alikes, 65535-byte passwords differing in the last byte/bit, empty vs non-empty, unrelated) "
        "x 3 sites (start only, finish only, both) x default/explicit identities+context; non-trivial = wrong attempt "
        "whose right-password control in the same world was accepted; distinct = distinct (suite, registered, wrong, site)")
ASSUMPTIONS = ["passwords within the statement's domain 0..65535 bytes", "held on the pairs observed"]
MAXPW = 65535


def near_misses(pw, rnd, thorough):
    out = []
    n = len(pw)
    if n <= (32 if thorough else 12):
        for i in range(n * 8):
            b = bytearray(pw)
            b[i // 8] ^= 1 << (i % 8)
            out.append(("bitflip", bytes(b)))
    elif n:
        for i in sorted({0, 7, n * 8 - 1, n * 8 - 8, rnd.randrange(n * 8), rnd.randrange(n * 8)}):
            b = bytearray(pw)
            b[i // 8] ^= 1 << (i % 8)
            out.append(("bitflip", bytes(b)))
    plist = range(n) if (n <= 40 and thorough) else sorted({0, 1, n // 2, n - 1} & set(range(n)))
    for k in plist:
        out.append(("prefix", pw[:k]))
    for e in (b"\x00", b" ", b"\n", pw[-1:] or b"a"):
        if n + 1 <= MAXPW:
            out.append(("extension", pw + e))
            out.append(("prepend", e + pw))
    sw = bytes(c ^ 0x20 if (65 <= c <= 90 or 97 <= c <= 122) else c for c in pw)
    if sw != pw:
        out.append(("case", sw))
    for k in ([0, n // 2, n] if n else [0]):
        if n + 1 <= MAXPW:
            out.append(("nul-insert", pw[:k] + b"\x00" + pw[k:]))
    if b"\x00" in pw:
        out.append(("nul-remove", pw.replace(b"\x00", b"", 1)))
    if 0 < 2 * n <= MAXPW:
        out.append(("doubled", pw + pw))
    if n + 2 <= MAXPW:
        out.append(("len-prefixed", n.to_bytes(2, "big") + pw))
    if n >= 2:
        out.append(("tail", pw[1:]))
    out.append(("empty" if n else "nonempty", b"" if n else b"\x00"))
    out.append(("unrelated", bytes(rnd.randrange(256) for _ in range(rnd.randrange(1, 40)))))
    seen, res = {pw}, []
    for lab, w in out:
        if w not in seen and len(w) <= MAXPW:
            seen.add(w)
            res.append((lab, w))
    return res

FLAVOURS = {"quick": ["release", "ovf"], "thorough": ["release", "ovf"]}


def jobs(tier, seed):
    out = []
    for su in okv.SUITES20:
        shards = 1 if tier == "quick" else 4
        for sh in range(shards):
            out.append({"suite": su, "shard": sh, "shards": shards, "seed": seed, "tier": tier, "cost": okv.suite_cost(su)})
    for su in okv.MON_SUITES:
        out.append({"suite": su, "shard": 0, "shards": 1, "seed": seed, "tier": tier, "cost": okv.suite_cost(su), "mon": True})
    # the same workload on the build with overflow checks and debug assertions (the library as a `dev` profile compiles it):
    # what a wrong password unmasks is pseudo-random, so rare shapes of that garbage are only reached by volume
    ovf = ["r255+p256", "r255+p384", "r255+p521", "r255+x25519", "r255+r255"] if tier == "quick" else okv.SUITES20
    for su in ovf:
        out.append({"suite": su, "shard": 0, "shards": 1, "seed": seed + 7919, "tier": tier, "cost": 2 * okv.suite_cost(su), "flavour": "ovf"})
    return out


def run_job(job):
    su, tier = job["suite"], job["tier"]
    thorough = tier == "thorough"
    rnd = proto.pyrng("c02", su, job["shard"], job["seed"])
    viol, samples = [], []
    stats = {"wrong_attempts": 0, "invalid_login": 0, "controls": 0, "by_family": {}, "by_site": {}, "route": {}, "sfinish_rejected": 0}
    seen = set()
    evals = 0
    with okv.Session(su, flavour=job.get("flavour", "release")) as s:
        regs = proto.password_classes(rnd, big=True)
        if thorough:
            # several registered passwords per class
            regs = regs + [("random-%d" % k, bytes(rnd.randrange(256) for _ in range(rnd.randrange(1, 33)))) for k in range(9)]
            regs.append(("len65535-b", bytes(rnd.randrange(256) for _ in range(65535))))
        regs = [r for i, r in enumerate(regs) if i % job["shards"] == job["shard"]]
        if tier == "quick":
            keep = {"empty", "1byte", "nul-inside", "utf8", "len65535", "random", "zero8", "len33", "len64", "len128"}
            regs = [r for r in regs if r[0] in keep]
        for ri, (rlab, pw) in enumerate(regs):
            explicit = (ri % 2 == 1)
            idu, ids, ctx = (b"user@example", b"server.example", b"ctx") if explicit else (None, None, None)
            if ri % 4 == 2:
                idu, ids, ctx = b"u" * 256, b"s" * 300, b"c" * 256      # boundary-length parameters must not change the error either
            wseed = proto.H("c02", su, job["seed"], rlab)
            rng = s.rng("r", wseed)
            s.cmd("setup_new", rng=rng, out="S")
            reg = proto.register(s, rng, "S", pw, b"cred", id_u=idu, id_s=ids, wire=False, tag="g")
            good = proto.login(s, rng, rng, "S", reg.file_h, pw, b"cred", ctx_c=ctx, ctx_s=ctx, id_u_c=idu, id_s_c=ids, id_u_s=idu,
                               id_s_s=ids, wire=False, tag="ok") if reg.ok else reg
            evals += 8
            if not (reg.ok and good.ok):
                viol.append({"sig": "C02 control: right password rejected", "what": "%s pw class %s: %s %s" % (su, rlab, reg.first_failure(), good.first_failure())})
                continue
            stats["controls"] += 1
            misses = near_misses(pw, rnd, True)
            if tier == "quick" and len(misses) > 120:
                misses = misses[:60] + rnd.sample(misses[60:], 60)
            for fam, wpw in misses:
                # site A: wrong at start and finish; site B: wrong at start only; site C: wrong at finish only
                st = s.cmd("clogin_start", rng=rng, pw=wpw, out_state="w.cl", out_msg="w.cq")
                evals += 1
                if st.failed:
                    viol.append({"sig": "C02 ClientLogin::start failed on in-domain password", "what": "%s %s: %s" % (su, proto.short(wpw), dict(st))})
                    continue
                sr = s.cmd("slogin_start", rng=rng, setup="S", file="g.file", req="w.cq", cred=b"cred", ctx=ctx, id_u=idu, id_s=ids,
                           out_state="w.sl", out_msg="w.cr")
                evals += 1
                if sr.failed:
                    viol.append({"sig": "C02 ServerLogin::start failed", "what": "%s: %s" % (su, dict(sr))})
                    continue
                tries = [("both", "w.cl", "w.cr", wpw), ("start-only", "w.cl", "w.cr", pw), ("finish-only", "ok.cl", "ok.cr", wpw)]
                for site, stt, resp, fpw in tries:
                    r = s.cmd("clogin_finish", state=stt, pw=fpw, resp=resp, ctx=ctx, id_u=idu, id_s=ids, out="w.cf")
                    evals += 1
                    stats["wrong_attempts"] += 1
                    stats["by_family"][fam] = stats["by_family"].get(fam, 0) + 1
                    stats["by_site"][site] = stats["by_site"].get(site, 0) + 1
                    seen.add((rlab, wpw if len(wpw) < 64 else proto.H(wpw), site))
                    case = {"suite": su, "registered": rlab, "registered_pw": proto.short(pw), "wrong_pw": proto.short(wpw), "family": fam,
                            "site": site, "explicit_ids": explicit}
                    if job.get("flavour"):
                        case["build"] = job["flavour"]
                        stats["debug_build_attempts"] = stats.get("debug_build_attempts", 0) + 1
                    if job.get("mon"):
                        de = [e for e in r.get("dh", []) if e.get("op") == "de_pk"]
                        route = "pk-decode-failed" if any(not e["ok"] for e in de) else "envelope-mac-failed"
                        stats["route"][route] = stats["route"].get(route, 0) + 1
                    if r.ok:
                        viol.append({"sig": "C02 wrong password accepted (%s, %s)" % (fam, site),
                                     "what": "ClientLogin::finish succeeded with a wrong password: %s; session_key %s" % (case, r.session_key)})
                    elif r.get("panic") or r.get("died"):
                        viol.append({"sig": "C02 client finish crashed", "what": "%s: %s" % (case, dict(r))})
                    elif r.err != "InvalidLoginError":
                        viol.append({"sig": "C02 wrong password: error is %s, not InvalidLoginError" % r.err, "what": "%s -> %s" % (case, r.err)})
                    else:
                        stats["invalid_login"] += 1
                        if any(k in r for k in ("msg", "session_key", "export_key")):
                            viol.append({"sig": "C02 failed finish still yielded outputs", "what": str(case)})
                    if len(samples) < 2 and not r.ok:
                        samples.append(dict(case, outcome=r.err))
                # the server side can never complete: offer constants, random and a KE3 of a parallel correct session
                for lab, fin in (("zero", bytes(s.sz.nh)), ("ff", b"\xff" * s.sz.nh), ("random", bytes(rnd.randrange(256) for _ in range(s.sz.nh))),
                                 ("parallel-correct-KE3", bytes.fromhex(good.cfin))):
                    d = s.de("cfin", fin, out="w.f")
                    r = s.cmd("slogin_finish", state="w.sl", fin="w.f")
                    evals += 1
                    if r.ok:
                        viol.append({"sig": "C02 server completed a wrong-password session", "what": "%s: %s finalization accepted by the server state of a wrong-password login" % (su, lab)})
                    elif r.err == "InvalidLoginError":
                        stats["sfinish_rejected"] += 1
                    else:
                        viol.append({"sig": "C02 server finish error %s" % r.err, "what": "%s %s" % (su, lab)})
            s.cmd("clear")
    stats["suites"] = {su: stats["wrong_attempts"]}
    return {"evals": evals, "nontrivial": len(seen), "samples": samples, "violations": viol, "inconclusive": [], "stats": stats}


def floors(tier, stats, results):
    out = []
    missing = [x for x in okv.SUITES20 if stats.get("suites", {}).get(x, 0) < 100]
    if missing:
        out.append("fewer than 100 wrong-password attempts for suites %s" % missing)
    if stats.get("debug_build_attempts", 0) < 5000:
        out.append("fewer than 5000 wrong-password attempts on the debug-assertions build")
    for site in ("both", "start-only", "finish-only"):
        if stats.get("by_site", {}).get(site, 0) < 500:
            out.append("fewer than 500 attempts at site %s" % site)
    return out
