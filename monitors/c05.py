"""C05 - identities, context and credential identifier are bound, unambiguously.

Refuting event: for (parameters at registration, at ServerLogin::start, at ClientLogin::finish)
and (credential id at registration, at login), the client's final step succeeds although the
monitor's predicate - computed from the recorded parameters alone - says "mismatch", or fails
although it says "match".
"""
from . import okv, proto

LEVEL = "exploration"
RULE = ("per suite: baseline matching triples (all absent / all explicit), then every single-slot single-site deviation "
        "to every value of the pool {absent, empty, 1 byte, explicit spelling of the default key, 255, 256, 257, 65535 "
        "bytes}, the 'explicit default == absent' equivalences, crafted collision families (boundary-shifted splits of "
        "one concatenation across context|client identity and server identity|client identity, the mod-256 length "
        "wrap, swapped identities, an identity equal to the other side's key), credential-id pairs (equal, empty vs "
        "0x00, prefixes, suffix 'OprfKey', long); expectation = predicate over effective values; non-trivial = a "
        "triple whose predicate says mismatch and whose matching baseline in the same world was accepted, or a "
        "matching triple; distinct = distinct (suite, triple)")
ASSUMPTIONS = ["effective identity = explicit bytes or that party's static public key; effective context = explicit bytes or ''",
               "held on the triples observed; byte-exact transcript/envelope encoding is pinned by C09"]


def jobs(tier, seed):
    out = [{"suite": su, "seed": seed, "tier": tier, "cost": okv.suite_cost(su)} for su in okv.SUITES20]
    return out


class World:
    def __init__(self, s, su, seed, stats, viol):
        self.s, self.su = s, su
        self.rng = s.rng("r", proto.H("c05", su, seed))
        st = s.cmd("setup_new", rng=self.rng, out="S")
        self.spk = bytes.fromhex(st.pk)
        self.pw = b"the password"
        # an explicit KSF instance equivalent to the suite default, and the different ways of building parameter structs:
        # neither may change which triples match
        s.cmd("ksf_new", id="kdefault", param=1)
        self.regs = {}
        self.n = 0
        self.stats, self.viol = stats, viol
        self.evals = 0

    def reg(self, idu, ids, cred):
        key = (idu, ids, cred)
        if key not in self.regs:
            self.n += 1
            f = proto.register(self.s, self.rng, "S", self.pw, cred, id_u=idu, id_s=ids, wire=False, tag="g%d" % self.n,
                               ksf="kdefault" if self.n % 2 else None, params_via=["new", "clone", "default", "literal"][self.n % 4])
            self.evals += 4
            if not f.ok:
                self.regs[key] = None
                self.viol.append({"sig": "C05 registration failed for in-domain parameters", "what": "%s: %s" % (self.su, f.first_failure())})
            else:
                self.regs[key] = (f.file_h, bytes.fromhex(f.rupl)[:self.s.sz.npk])
        return self.regs[key]

    def attempt(self, reg, srv, cli, cred_reg=b"cred", cred_login=b"cred", why=""):
        """reg=(idu,ids) srv=(idu,ids,ctx) cli=(idu,ids,ctx). Values may be the marker 'DEF' = explicit spelling of
        the default key (resolved here). Returns (expected_match, outcome_ok)."""
        r = self.reg(reg[0] if reg[0] != "DEF" else None, reg[1] if reg[1] != "DEF" else self.spk, cred_reg)
        if r is None:
            return None
        fh, cpk = r

        def res(v, is_u):
            return (cpk if is_u else self.spk) if v == "DEF" else v

        reg_e = (reg[0] if reg[0] != "DEF" else None, reg[1] if reg[1] != "DEF" else self.spk)
        srv_e = (res(srv[0], True), res(srv[1], False), srv[2])
        cli_e = (res(cli[0], True), res(cli[1], False), cli[2])

        def eff(v, default):
            return default if v is None else v

        m_u = eff(reg_e[0], cpk) == eff(srv_e[0], cpk) == eff(cli_e[0], cpk)
        m_s = eff(reg_e[1], self.spk) == eff(srv_e[1], self.spk) == eff(cli_e[1], self.spk)
        m_c = eff(srv_e[2], b"") == eff(cli_e[2], b"")
        expect = m_u and m_s and m_c and cred_reg == cred_login
        s = self.s
        a = s.cmd("clogin_start", rng=self.rng, pw=self.pw, out_state="t.cl", out_msg="t.cq")
        k = self.stats["triples"]
        b = s.cmd("slogin_start", rng=self.rng, setup="S", file=fh, req="t.cq", cred=cred_login, ctx=srv_e[2], id_u=srv_e[0], id_s=srv_e[1],
                  out_state="t.sl", out_msg="t.cr", params_via=["literal", "clone", "default"][k % 3])
        self.evals += 2
        over = any(v is not None and len(v) > 65535 for v in (srv_e[0], srv_e[1], srv_e[2], cli_e[0], cli_e[1], cli_e[2]))
        if over and (a.failed or b.failed):
            self.stats["over_limit_refused"] = self.stats.get("over_limit_refused", 0) + 1
            return None
        if a.failed or b.failed:
            self.viol.append({"sig": "C05 login start failed for in-domain parameters", "what": "%s: %s %s" % (self.su, dict(a) if a.failed else "", dict(b) if b.failed else "")})
            return None
        c = s.cmd("clogin_finish", state="t.cl", pw=self.pw, resp="t.cr", ctx=cli_e[2], id_u=cli_e[0], id_s=cli_e[1], out="t.cf",
                  ksf="kdefault" if (k // 3) % 2 else None, params_via=["new", "clone", "default", "literal"][(k // 2) % 4])
        self.evals += 1
        desc = {"suite": self.su, "why": why,
                "registration": {"id_u": proto.short(reg_e[0]), "id_s": proto.short(reg_e[1]), "cred": proto.short(cred_reg)},
                "server_start": {"id_u": proto.short(srv_e[0]), "id_s": proto.short(srv_e[1]), "ctx": proto.short(srv_e[2]), "cred": proto.short(cred_login)},
                "client_finish": {"id_u": proto.short(cli_e[0]), "id_s": proto.short(cli_e[1]), "ctx": proto.short(cli_e[2])},
                "predicate": {"id_u": m_u, "id_s": m_s, "ctx": m_c, "cred": cred_reg == cred_login}}
        st = self.stats
        st["triples"] += 1
        if c.get("panic") or c.get("died"):
            self.viol.append({"sig": "C05 client finish crashed", "what": "%s: %s" % (desc, dict(c))})
            return None
        if over:
            # beyond the encodable limit nothing may be bound "by omission": the login must not complete
            if c.ok:
                self.viol.append({"sig": "C05 login completed with an over-limit context / identity (%s)" % why,
                                  "what": "ClientLogin::finish succeeded although a parameter exceeds 65535 bytes: %s" % desc})
            else:
                st["over_limit_refused"] = st.get("over_limit_refused", 0) + 1
            return None
        if expect:
            st["expected_match"] += 1
            if not c.ok:
                self.viol.append({"sig": "C05 matching parameters rejected (%s)" % why, "what": "login failed with %s although all effective parameters match: %s" % (c.err, desc)})
            else:
                d = s.cmd("slogin_finish", state="t.sl", fin="t.cf")
                self.evals += 1
                if not (d.ok and d.session_key == c.session_key):
                    self.viol.append({"sig": "C05 matching parameters: server side did not complete with the same key", "what": str(desc)})
                if bytes.fromhex(c.server_s_pk) != self.spk:
                    self.viol.append({"sig": "C05 server_s_pk differs", "what": str(desc)})
        else:
            st["expected_mismatch"] += 1
            which = [k for k, v in desc["predicate"].items() if not v]
            for k in which:
                st["mismatch_by_slot"][k] = st["mismatch_by_slot"].get(k, 0) + 1
            if c.ok:
                self.viol.append({"sig": "C05 mismatch accepted (%s; %s)" % ("+".join(which), why),
                                  "what": "ClientLogin::finish succeeded although the predicate says mismatch in %s: %s" % (which, desc)})
            else:
                st["err_hist"][c.err] = st["err_hist"].get(c.err, 0) + 1
        return expect, bool(c.ok), desc


def run_job(job):
    su, tier = job["suite"], job["tier"]
    rnd = proto.pyrng("c05", su, job["seed"])
    viol, samples = [], []
    stats = {"triples": 0, "expected_match": 0, "expected_mismatch": 0, "mismatch_by_slot": {}, "err_hist": {}, "families": {}}
    seen = set()
    with okv.Session(su) as s:
        w = World(s, su, job["seed"], stats, viol)
        L255, L256, L257 = b"\x51" * 255, b"\x52" * 256, b"\x53" * 257
        L64K = b"\x54" * 65534 + b"\x55"
        pool = [None, b"", b"x", "DEF", L255, L256, L257, L64K]
        poolc = [None, b"", b"x", L255, L256, L257, L64K]

        def run(reg, srv, cli, why, cr=b"cred", cl=b"cred"):
            r = w.attempt(reg, srv, cli, cr, cl, why)
            fam = why.split(":")[0]
            stats["families"][fam] = stats["families"].get(fam, 0) + 1
            if r:
                key = (repr(reg), repr(srv), repr(cli), cr, cl)
                seen.add(proto.H(repr(key)))
                if len(samples) < 2 and not r[0]:
                    samples.append(dict(r[2], outcome_ok=r[1]))

        bases = [((None, None), None), ((b"user-0", b"server-0"), b"ctx-0"), ((b"", b""), b""), ((b"u", b""), None), ((b"", b"s"), None), ((None, b""), b"c"),
                 ((b"U" * 300, b"S" * 300), b"C" * 300)]
        for (bu, bs), bc in bases:
            run((bu, bs), (bu, bs, bc), (bu, bs, bc), "baseline")
            # single-slot single-site deviations
            for v in pool:
                if v != bu:
                    run((v, bs), (bu, bs, bc), (bu, bs, bc), "deviate: id_u at registration")
                    run((bu, bs), (v, bs, bc), (bu, bs, bc), "deviate: id_u at server start")
                    run((bu, bs), (bu, bs, bc), (v, bs, bc), "deviate: id_u at client finish")
                if v != bs:
                    run((bu, v), (bu, bs, bc), (bu, bs, bc), "deviate: id_s at registration")
                    run((bu, bs), (bu, v, bc), (bu, bs, bc), "deviate: id_s at server start")
                    run((bu, bs), (bu, bs, bc), (bu, v, bc), "deviate: id_s at client finish")
            for v in poolc:
                if v != bc:
                    run((bu, bs), (bu, bs, v), (bu, bs, bc), "deviate: ctx at server start")
                    run((bu, bs), (bu, bs, bc), (bu, bs, v), "deviate: ctx at client finish")
            # matching triples at every pool value (boundary lengths must WORK when all sites agree)
            for v in pool:
                if v != "DEF":
                    run((v, bs), (v, bs, bc), (v, bs, bc), "agree: id_u pool value")
                    run((bu, v), (bu, v, bc), (bu, v, bc), "agree: id_s pool value")
            for v in poolc:
                run((bu, bs), (bu, bs, v), (bu, bs, v), "agree: ctx pool value")
        # explicit default == absent, in every combination of sites
        for mask in range(8):
            sites = [("DEF" if mask & (1 << k) else None) for k in range(3)]
            # at registration an explicit client key cannot be known beforehand; use the server key spelling there
            run((None, sites[0]), (sites[1], sites[1], None), (sites[2], sites[2], None), "equivalence: explicit default == absent")
        # absent context == empty context
        run((None, None), (None, None, None), (None, None, b""), "equivalence: absent ctx == empty ctx")
        run((None, None), (None, None, b""), (None, None, None), "equivalence: absent ctx == empty ctx")
        # ---- crafted collision families
        cuts = [(b"AB", b"C", b"A", b"BC"), (b"A", b"BC", b"AB", b"C"), (b"", b"ABC", b"ABC", b""), (b"ABC", b"", b"", b"ABC"),
                (b"\x00\x01A", b"B", b"", b"\x00\x01A\x00\x01B")]
        text = bytes(rnd.randrange(65, 91) for _ in range(24))
        ncut = len(text) + 1 if tier == "thorough" else 6
        for k in range(1, ncut):
            for j in range(k + 1, min(ncut, k + (24 if tier == "thorough" else 3))):
                cuts.append((text[:k], text[k:], text[:j], text[j:]))
        for a1, b1, a2, b2 in cuts:
            # context | client identity in the transcript: server says (ctx=a1,id_u=b1), client says (ctx=a2,id_u=b2)
            run((b1, b"srv"), (b1, b"srv", a1), (b2, b"srv", a2), "collision: ctx|id_u split, client vs server")
            run((b2, b"srv"), (b1, b"srv", a1), (b2, b"srv", a2), "collision: ctx|id_u split, client vs server")
            # server identity | client identity in the envelope: sealed (id_s=a1,id_u=b1), opened with (id_s=a2,id_u=b2)
            run((b1, a1), (b2, a2, None), (b2, a2, None), "collision: id_s|id_u split, registration vs login")
            run((b1, a1), (b1, a1, None), (b2, a2, None), "collision: id_s|id_u split, registration vs login")
        # mod-256 wrap: collides under a 1-byte (wrapping) length prefix
        big = b"\x01" * 256
        run((b"b", b"srv"), (b"b", b"srv", big), (big + b"b", b"srv", b""), "collision: mod-256 length wrap ctx/id_u")
        run((big + b"b", b"srv"), (b"b", b"srv", big), (big + b"b", b"srv", b""), "collision: mod-256 length wrap ctx/id_u")
        run((b"b", big), (b"b", big, None), (big + b"b", b"", None), "collision: mod-256 length wrap id_s/id_u")
        run((b"b" * 256, b"srv"), (b"", b"srv", None), (b"", b"srv", None), "collision: 256-byte identity vs empty")
        run((b"", b"srv"), (b"b" * 256, b"srv", None), (b"b" * 256, b"srv", None), "collision: 256-byte identity vs empty")
        # long values that share a long common prefix / suffix (a binding that only covers part of a value collides here)
        for n in (255, 256, 300, 65534):
            pa, pb = b"P" * n + b"A", b"P" * n + b"B"
            sa, sb = b"A" + b"S" * n, b"B" + b"S" * n
            for va, vb, lab in ((pa, pb, "prefix"), (sa, sb, "suffix")):
                run((va, b"srv"), (va, b"srv", None), (vb, b"srv", None), "collision: id_u differs only after a %d-byte common %s" % (n, lab))
                run((va, b"srv"), (vb, b"srv", None), (vb, b"srv", None), "collision: id_u differs only after a %d-byte common %s" % (n, lab))
                run((b"u", va), (b"u", va, None), (b"u", vb, None), "collision: id_s differs only after a %d-byte common %s" % (n, lab))
                run((b"u", va), (b"u", vb, None), (b"u", vb, None), "collision: id_s differs only after a %d-byte common %s" % (n, lab))
                run((None, None), (None, None, va), (None, None, vb), "collision: ctx differs only after a %d-byte common %s" % (n, lab))
                run((None, None), (None, None, va), (None, None, va), "agree: long ctx")
        # equal client and server identities are legitimate values like any other
        for v in (b"", b"same", b"E" * 256):
            run((v, v), (v, v, None), (v, v, None), "agree: id_u == id_s")
            run((v, v), (v, v, b"c"), (v, v, b"c"), "agree: id_u == id_s")
            run((v, v), (v, b"other", None), (v, v, None), "deviate: id_s at server start (from equal identities)")
        # parameters beyond the 65535-byte limit on both sides (equal, and different): refused, never silently left out
        oa, ob = b"a" * 65536, b"b" * 65537
        run((None, None), (None, None, oa), (None, None, oa), "over-limit: equal 65536-byte contexts")
        run((None, None), (None, None, oa), (None, None, ob), "over-limit: different over-limit contexts")
        run((None, None), (oa, None, None), (ob, None, None), "over-limit: different over-limit client identities at login")
        run((None, None), (None, oa, None), (None, ob, None), "over-limit: different over-limit server identities at login")
        # values that begin or end with one of the protocol's own labels are values like any other: a binding that strips,
        # skips or re-interprets such a label makes "label || x" collide with "x" (or with the absent value)
        for lab_ in (b"OPAQUEv1-", b"OPAQUE-", b"OPAQUE-DeriveKeyPair", b"ServerMAC", b"ClientMAC", b"SessionKey", b"HandshakeSecret", b"MaskingKey", b"OprfKey",
                     b"CredentialResponsePad", b"ExportKey", b"AuthKey", b"PrivateKey", b"RFC9807", b"\x00\x09OPAQUEv1-"):
            for x_ in (b"", b"demo-app"):
                for a_, b_ in ((lab_ + x_, x_ or None), (x_ + lab_, x_ or None), (lab_ + x_, x_)):
                    run((None, None), (None, None, a_), (None, None, b_), "collision: ctx with a protocol label vs without")
                    run((a_, b"srv"), (a_, b"srv", None), (b_, b"srv", None), "collision: id_u with a protocol label vs without")
                    run((b"u", a_), (b"u", a_, None), (b"u", b_, None), "collision: id_s with a protocol label vs without")
                run((None, None), (None, None, lab_ + x_), (None, None, lab_ + x_), "agree: ctx with a protocol label")
                run((lab_ + x_, lab_), (lab_ + x_, lab_, None), (lab_ + x_, lab_, None), "agree: identities with a protocol label")
        # swapped / crossed identities
        run((b"U", b"V"), (b"V", b"U", None), (b"V", b"U", None), "collision: identities swapped, registration vs login")
        run((b"U", b"V"), (b"U", b"V", None), (b"V", b"U", None), "collision: identities swapped, client vs server")
        run((None, None), ("DEF", None, None), (None, "DEF", None), "collision: spelled defaults on the wrong slot")
        run((None, None), (w.spk, None, None), (w.spk, None, None), "collision: client identity := server key")
        # ---- credential identifier pairs
        creds = [(b"", b"\x00"), (b"\x00", b""), (b"cred", b"cre"), (b"cre", b"cred"), (b"cred", b"credOprfKey"), (b"credOprfKey", b"cred"),
                 (b"", b"OprfKey"), (b"alice", b"alice\n"), (b" alice", b"alice"), (b"alice ", b"alice\t"), (b"\x20\x00\x00\x01", b"\x0a\x00\x00\x01"), (b" ", b""), (b"a" * 64, b"a" * 63 + b"b"), (b"a" * 63 + b"b", b"a" * 64), (b"c" * 1024, b"c" * 1023), (b"c" * 1023 + b"d", b"c" * 1024),
                 (b"k" * 100000, b"k" * 99999 + b"l"), (b"cred", b"CRED"), (b"x" * 25 + b"A", b"x" * 25 + b"B"), (b"x" * 41 + b"A", b"x" * 41 + b"B"),
                 (b"x" * 57 + b"A", b"x" * 57 + b"B"), (b"y" * 128 + b"A", b"y" * 128 + b"B"), (b"z" * 255 + b"A", b"z" * 255 + b"B"),
                 (b"z" * 65535 + b"A", b"z" * 65535 + b"B")]
        for cr, cl in creds:
            run((None, None), (None, None, None), (None, None, None), "cred: different identifiers", cr, cl)
            run((None, None), (None, None, None), (None, None, None), "cred: equal identifiers", cr, cr)
        # ---- thorough: random triples from the pool
        if tier == "thorough":
            small = [None, b"", b"x", "DEF", L255, L256]
            for k in range(6000):
                reg = (rnd.choice(small[:3] + small[4:]), rnd.choice(small[:3] + small[4:]))
                srv = (rnd.choice([reg[0], reg[0], rnd.choice(small)]), rnd.choice([reg[1], reg[1], rnd.choice(small)]), rnd.choice([None, b"", b"x", L256]))
                cli = (rnd.choice([srv[0], srv[0], rnd.choice(small)]), rnd.choice([srv[1], srv[1], rnd.choice(small)]), rnd.choice([srv[2], srv[2], b"y"]))
                run(reg, srv, cli, "random: pool triple")
        evals = w.evals
    stats["suites"] = {su: stats["triples"]}
    return {"evals": evals, "nontrivial": len(seen), "samples": samples, "violations": viol, "inconclusive": [], "stats": stats}


def floors(tier, stats, results):
    out = []
    missing = [x for x in okv.SUITES20 if stats.get("suites", {}).get(x, 0) < 200]
    if missing:
        out.append("fewer than 200 triples for suites %s" % missing)
    for k in ("id_u", "id_s", "ctx", "cred"):
        if stats.get("mismatch_by_slot", {}).get(k, 0) < 300:
            out.append("fewer than 300 mismatches in slot %s" % k)
    if stats.get("expected_match", 0) < 20 * 40:
        out.append("fewer than 40 matching triples per suite")
    return out
