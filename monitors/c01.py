"""C01 - honest registration + login always agree on keys (all 20 suites x KSFs, production build).

Refuting event: with equal password, credential id, effective identities and context, a step
fails, or the session keys differ, or login's export key / server public key differ from the
registration's (and the setup's).
"""
from . import okv, proto

LEVEL = "exploration"
RULE = ("worlds = seeded draws from password x credential-id x client-identity x server-identity x context classes "
        "(incl. empty, 255/256/65535-byte, 100 KiB ids, explicit spelling of the default keys) x KSF mode x "
        "{messages as bytes, as objects}; a world is non-trivial when all 8 API steps ran; distinct = distinct "
        "(suite, class tuple) descriptors")
ASSUMPTIONS = ["held on the executions observed only", "Argon2 adapter exercised on 4 suites (one per OPRF hash)"]
FLAVOURS = {"quick": ["release"], "thorough": ["release"]}


def jobs(tier, seed):
    out = []
    n = 60 if tier == "quick" else 1500
    for su in okv.SUITES20:
        shards = 1 if tier == "quick" else 4
        for sh in range(shards):
            out.append({"suite": su, "shard": sh, "n": n // shards, "seed": seed, "cost": okv.suite_cost(su) * n / shards,
                        "big": sh == 0})
    for su in okv.SUITES20:
        out.append({"suite": su + ":id", "shard": 0, "n": 100 if tier == "quick" else 400, "seed": seed,
                    "cost": okv.suite_cost(su), "big": False})
    for su in okv.ARGON_SUITES:
        out.append({"suite": su, "shard": 0, "n": 4 if tier == "quick" else 24, "seed": seed, "cost": 400, "big": False})
    return out


def ksf_modes(s):
    kind = s.info.ksf
    if kind == "hksf":
        s.cmd("ksf_new", id="k1", param=1)
        s.cmd("ksf_new", id="k0", param=0)
        s.cmd("ksf_new", id="k3", param=3)
        return [None, "k1", "k0", "k3"]
    if kind == "identity":
        s.cmd("ksf_new", id="kid", param=None)
        return [None, "kid"]
    s.cmd("ksf_new", id="kdef", param="default")
    s.cmd("ksf_new", id="kcheap", param={"m": 64, "t": 1, "p": 1})
    return ["kcheap", "kcheap", "kcheap", None, "kdef"]


def run_job(job):
    su = job["suite"]
    rnd = proto.pyrng("c01", su, job["shard"], job["seed"])
    viol, samples = [], []
    stats = {"worlds": 0, "steps_ok": 0, "draw_sig": {}, "ksf_calls": 0, "by_class": {}}
    seen = set()
    evals = 0
    with okv.Session(su) as s:
        sz = s.sz
        modes = ksf_modes(s)
        pws = proto.password_classes(rnd, big=job["big"])
        creds = proto.cred_classes(rnd, big=job["big"])
        ids = proto.ident_classes(rnd, big=job["big"]) + [("default-explicit", "DEFAULT")]
        ctxs = proto.ctx_classes(rnd, big=job["big"])
        # every boundary class at least once: cycle through the longest list, then random fill
        plan = []
        L = max(len(pws), len(creds), len(ids), len(ctxs))
        for i in range(L):
            plan.append((pws[i % len(pws)], creds[i % len(creds)], ids[i % len(ids)], ids[(i + 3) % len(ids)],
                         ctxs[i % len(ctxs)]))
        while len(plan) < job["n"]:
            plan.append((rnd.choice(pws), rnd.choice(creds), rnd.choice(ids), rnd.choice(ids), rnd.choice(ctxs)))
        plan = plan[:max(job["n"], 1)] if su.endswith(":argon2") else plan
        for wi, (pw, cred, idu, ids_, ctx) in enumerate(plan):
            wire = bool(rnd.getrandbits(1))
            ksf = modes[wi % len(modes)]
            wseed = proto.H("c01w", su, job["shard"], job["seed"], wi)
            # random tapes: one RNG shared by all parties; separate client/server RNGs that happen to be seeded identically
            # (so that nonces / key-share seeds of the two sides coincide); constant-byte tapes
            tapes = ["shared", "shared", "same-seed", "zero-envelope-nonce", "constant-0x01", "shared", "same-seed", "ff-per-call"][wi % 8]
            via = ["new", "literal", "default", "clone"][(wi // 2) % 4]      # how the caller builds the parameter structs
            rng_fin = None
            if tapes == "shared":
                rng = rng_c = rng_s = s.rng("r", wseed)
            elif tapes == "same-seed":
                rng_c, rng_s = s.rng("rc", wseed), s.rng("rs", wseed)
                rng = rng_s
            elif tapes in ("zero-envelope-nonce", "ff-per-call"):
                # a tape per call: the registration finish (whose only draw is the envelope nonce) reads 32 zero / 0xff bytes
                rng = rng_c = rng_s = s.rng("r", wseed)
                rng_fin = s.rng("rf", wseed, (b"\x00" if tapes.startswith("zero") else b"\xff") * 32)
            else:
                rng_c, rng_s = s.rng("rc", wseed, b"\x01" * 4096), s.rng("rs", wseed, b"\x01" * 4096)
                rng = rng_s
            st = s.cmd("setup_new", rng=rng, out="S")
            evals += 1
            if st.failed:
                viol.append({"sig": "C01 setup_new failed", "what": "ServerSetup::new failed: %s" % dict(st)})
                continue
            spk = st.pk
            # how the server came by its setup: fresh, rebuilt around an existing key, restored from bytes / serde,
            # or holding its key behind the external-key interface
            route = ["new", "deserialize", "new_with_key", "json", "external-key", "bincode"][wi % 6]
            if route == "deserialize":
                rr = s.de("setup", bytes.fromhex(st.ser), out="S")
            elif route in ("json", "bincode"):
                d = s.ser("S", route).data
                rr = s.de("setup", d if route == "json" else bytes.fromhex(d), codec=route, out="S")
            elif route in ("new_with_key", "external-key"):
                sk = bytes.fromhex(st.ser)[sz.nh:sz.nh + sz.nsk]
                rr = s.cmd("setup_new_with_key", rng=rng, sk=sk, ext=(route == "external-key"), out="S")
            else:
                rr = st
            evals += 1
            if rr.failed:
                viol.append({"sig": "C01 server setup route %s failed" % route, "what": "%s: %s" % (su, dict(rr))})
                continue
            if route in ("new_with_key", "external-key") and rr.pk != spk:
                viol.append({"sig": "C01 setup rebuilt around the same key reports another public key", "what": "%s: %s vs %s" % (su, rr.pk, spk)})
            stats["by_class"]["setup:" + route] = stats["by_class"].get("setup:" + route, 0) + 1
            stats["by_class"]["tapes:" + tapes] = stats["by_class"].get("tapes:" + tapes, 0) + 1
            stats["by_class"]["params:" + via] = stats["by_class"].get("params:" + via, 0) + 1
            # registration: "DEFAULT" identity = absent at registration, explicit spelling at login
            ru = None if idu[1] == "DEFAULT" else idu[1]
            rs = None if ids_[1] == "DEFAULT" else ids_[1]
            if wi % 9 == 4 and idu[1] != "DEFAULT":
                ids_ = idu                       # equal explicit client and server identities are legitimate
                rs = ru
            reg = proto.register(s, rng_c, "S", pw[1], cred[1], id_u=ru, id_s=rs, ksf=ksf, wire=wire, tag="g", rng_finish=rng_fin, params_via=via)
            desc = (pw[0], cred[0], idu[0], ids_[0], ctx[0], wire, str(ksf), route)
            case = {"suite": su, "world": wi, "pw": pw[0], "cred": cred[0], "id_u": idu[0], "id_s": ids_[0],
                    "ctx": ctx[0], "wire": wire, "ksf": ksf, "setup_route": route, "tapes": tapes, "params_via": via}
            evals += len(reg.steps)
            if not reg.ok:
                viol.append({"sig": "C01 registration step failed %s" % reg.failed_at,
                             "what": "honest registration failed at %s: %s; case %s" % (reg.failed_at, reg.first_failure(), case)})
                continue
            lu = reg.rupl[:2 * sz.npk] if idu[1] == "DEFAULT" else idu[1]
            if idu[1] == "DEFAULT":
                lu = bytes.fromhex(reg.rupl)[:sz.npk]
            ls = bytes.fromhex(spk) if ids_[1] == "DEFAULT" else ids_[1]
            if tapes == "same-seed":
                # both parties start the login from identically seeded generators (draws of equal sizes then coincide)
                rng_c, rng_s = s.rng("rc", proto.H(wseed, "login")), s.rng("rs", proto.H(wseed, "login"))
            # an honest run may be interrupted: both parties save and restore their in-flight login state in most worlds
            persist = ["native", None, "native", "bincode", "native", "json", "native"][wi % 7]
            case["persist"] = persist
            stats["by_class"]["persist:%s" % persist] = stats["by_class"].get("persist:%s" % persist, 0) + 1
            lg = proto.login(s, rng_c, rng_s, "S", reg.file_h, pw[1], cred[1], ctx_c=ctx[1], ctx_s=ctx[1], id_u_c=lu, id_s_c=ls,
                             id_u_s=lu, id_s_s=ls, ksf=ksf, wire=wire, tag="l", params_via=via, persist=persist)
            evals += len(lg.steps)
            stats["worlds"] += 1
            if not lg.ok:
                viol.append({"sig": "C01 login step failed %s" % lg.failed_at,
                             "what": "honest login failed at %s: %s; case %s" % (lg.failed_at, lg.first_failure(), case)})
                continue
            stats["steps_ok"] += 8
            bad = []
            if lg.session_key_c != lg.session_key_s:
                bad.append("session keys differ: client %s server %s" % (lg.session_key_c, lg.session_key_s))
            if lg.export_key != reg.export_key:
                bad.append("export key at login %s != at registration %s" % (lg.export_key, reg.export_key))
            if not (lg.server_s_pk == reg.server_s_pk == spk):
                bad.append("server public key: login %s registration %s setup %s" % (lg.server_s_pk, reg.server_s_pk, spk))
            if len(bytes.fromhex(lg.session_key_c)) != sz.nh or len(bytes.fromhex(lg.export_key)) != sz.nh:
                bad.append("key length is not Nh")
            # message lengths are the suite's fixed lengths
            for nm, hx, ln in (("rreq", reg.rreq, sz.rreq), ("rresp", reg.rresp, sz.rresp), ("rupl", reg.rupl, sz.rupl),
                               ("creq", lg.creq, sz.creq), ("cresp", lg.cresp, sz.cresp), ("cfin", lg.cfin, sz.cfin)):
                if len(hx) != 2 * ln:
                    bad.append("%s has length %d, expected %d" % (nm, len(hx) // 2, ln))
            for b in bad:
                viol.append({"sig": "C01 " + b.split(":")[0], "what": "%s; case %s" % (b, case)})
            # evidence that the production blinding path ran: draw sizes of the two start calls
            d = reg.steps[0][1].get("draws", {}).get("lens", [])
            key = "creg_start:" + ",".join(str(x) for x in sorted(set(d)))
            stats["draw_sig"][key] = stats["draw_sig"].get(key, 0) + 1
            stats["ksf_calls"] += len(reg.creg_finish.get("ksf", [])) + len(lg.clogin_finish.get("ksf", []))
            if desc not in seen:
                seen.add(desc)
            stats["by_class"]["pw:" + pw[0]] = stats["by_class"].get("pw:" + pw[0], 0) + 1
            stats["by_class"]["ctx:" + str(ctx[0])] = stats["by_class"].get("ctx:" + str(ctx[0]), 0) + 1
            stats["by_class"]["idu:" + idu[0]] = stats["by_class"].get("idu:" + idu[0], 0) + 1
            if len(samples) < 1 and not bad:
                samples.append(dict(case, session_key=lg.session_key_c, export_key=lg.export_key, server_s_pk=spk,
                                    creg_start_draws=d[:4]))
            s.cmd("clear")
    return {"evals": evals, "nontrivial": len(seen), "samples": samples, "violations": viol, "inconclusive": [],
            "stats": {"worlds": stats["worlds"], "steps_ok": stats["steps_ok"], "ksf_calls": stats["ksf_calls"],
                      "draw_sig": {su.split("+")[0]: stats["draw_sig"]}, "by_class": stats["by_class"],
                      "suites": {su: stats["worlds"]}}}


def floors(tier, stats, results):
    out = []
    suites = stats.get("suites", {})
    want = set(okv.SUITES20) | set(x + ":id" for x in okv.SUITES20) | set(okv.ARGON_SUITES)
    missing = [x for x in want if suites.get(x, 0) < 1]
    if missing:
        out.append("no completed honest world observed for suites %s" % missing)
    return out
